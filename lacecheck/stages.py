"""Success-path stage-set analysis (C07, C08, C15).

The validation stages of the assembler are four public functions. For every function g we
compute the set of possible *stage sets* along g's successful paths (a path that takes the
Err/Break edge of a Result it looked at, or that stores an error into the return place, is
not successful). A `for` loop over the AIR's statements whose every iteration passes a stage
contributes that stage on its exit edge too (zero statements -> vacuously all emitted).
"""
import re
from .facts import callee_of, expr_walk
from . import kit

STAGES = {
    "lace::parser::AsmParser::new": "lex+preprocess",
    "lace::parser::AsmParser::parse": "parse",
    "lace::air::Air::backpatch": "backpatch",
    "lace::air::AsmLine::emit": "emit",
    # per-statement form of the backpatch stage (`for stmt in air.ast.iter_mut() { stmt.backpatch()?; }`); like emit it counts for the
    # whole program only through a loop / drain over every statement (a partial loop shows up through its zero-iteration path)
    "lace::air::AsmLine::backpatch": "backpatch",
}
ALL = frozenset(STAGES.values())
EMPTY = frozenset()


_WHOLE_ADAPTERS = {"Rev", "Enumerate", "Peekable", "Cloned", "Copied", "Map", "Fuse", "Inspect"}


def _is_asmline_next(t, fn=None):
    return is_whole_next(t, fn, "AsmLine")


def is_whole_next(t, fn=None, elem="AsmLine"):
    """`next()` on an iterator that visits *every* statement: a slice/Vec iterator over AsmLine, possibly under
    element-preserving adapters. Filter/Skip/Take/StepBy/... visit a subset and do not count; neither does an
    iterator made from a sub-slice."""
    c = callee_of(t) or ""
    if not c.endswith("::next"):
        return False
    tys = t.get("arg_tys") or [""]
    ty = tys[0]
    if elem not in ty:
        return False
    if not re.search(r"(slice::iter::Iter(Mut)?|vec::into_iter::IntoIter)<", ty):
        return False
    if any(a not in _WHOLE_ADAPTERS for a in re.findall(r"iter::adapters::\w+::(\w+)", ty)):
        return False
    if fn is not None:
        e = fn.expr(t["args"][0], 10)
        for x in expr_walk(e):
            if x[0] == "call" and re.search(r"(::index|::index_mut|::get|::get_mut|::split_at|::split_first|::split_last|::skip|::take|::filter|::step_by)$", str(x[1])):
                return False
            if x[0] == "agg" and "ops::range::Range" in str(x[1]):
                return False
    return True


class StageAnalysis:
    def __init__(self, ctx, stages=None):
        self.ctx = ctx
        self.prog = ctx.prog
        self.cg = ctx.cg
        self.stages = stages or STAGES
        # functions that may reach a stage at all
        self.may = set()
        stage_names = set(self.stages)
        for n in self.prog.fns:
            if self.prog.fns[n].bkind != "fn":
                continue
            r = self.cg.reachable([n])
            if r & stage_names:
                self.may.add(n)
        self.summary = {}
        self._solve()

    def call_sets(self, t):
        """possible stage sets contributed by a call terminator"""
        c = callee_of(t)
        out = None
        if c in self.stages:
            out = {frozenset([self.stages[c]])}
        elif c in self.summary and c in self.may:
            out = set(self.summary[c])
        else:
            out = {EMPTY}
        # closures / fn items handed to the callee may be invoked by it
        for cl in t["f"].get("closures", []):
            nm = cl[3:] if cl.startswith("fn:") else cl
            if nm in self.may and nm in self.summary:
                extra = set()
                for a in out:
                    for b in self.summary[nm] | {EMPTY}:
                        extra.add(a | b)
                out = extra
        return out

    _EXHAUST = re.compile(r"(Iterator>?::(collect|try_for_each|for_each|try_fold|fold|count|last|sum)|FromIterator<.*>>::from_iter|Extend<.*>>::extend|Vec::<T, A>::extend)$")

    def _exhausting_map(self, fn, t):
        """stages that every element of the whole statement list has passed once this call returns successfully: the call
        drains `whole_list_iter.map(closure)` (collect / try_for_each / extend ...), so the closure ran on every statement
        (a failing element makes the drained Result an Err, which is not a success path)"""
        c = callee_of(t) or ""
        if not self._EXHAUST.search(c) or not t.get("args"):
            return None
        tys = " ".join(t.get("arg_tys") or [])
        if "AsmLine" in tys and "adapters::map::Map<" not in tys and re.search(r"::(try_for_each|for_each)$", c):
            # `whole_list_iter.try_for_each(f)`: f itself runs on every statement (a closure, or a stage function passed by name)
            ty0 = (t.get("arg_tys") or [""])[0]
            if not re.search(r"(slice::iter::Iter(Mut)?|vec::into_iter::IntoIter)<", ty0):
                return None
            if any(a not in _WHOLE_ADAPTERS for a in re.findall(r"iter::adapters::\w+::(\w+)", ty0)):
                return None
            for x in expr_walk(fn.expr(t["args"][0], 12)):
                if x[0] == "call" and re.search(r"(::index|::index_mut|::get|::get_mut|::split_at|::split_first|::split_last|::skip|::take|::filter|::step_by)$", str(x[1])):
                    return None
                if x[0] == "agg" and "ops::range::Range" in str(x[1]):
                    return None
            must = None
            for cl in t["f"].get("closures", []):
                nm = cl[3:] if cl.startswith("fn:") else cl
                if nm in self.stages:
                    m = frozenset([self.stages[nm]])
                elif self.summary.get(nm):
                    m = frozenset.intersection(*list(self.summary[nm]))
                else:
                    continue
                must = m if must is None else (must | m)
            return must
        if "AsmLine" not in tys or "adapters::map::Map<" not in tys:
            return None
        if any(a not in _WHOLE_ADAPTERS for a in re.findall(r"iter::adapters::\w+::(\w+)", tys)):
            return None
        e = fn.expr(t["args"][-1] if "extend" in c else t["args"][0], 12)
        must = None
        for x in expr_walk(e):
            if x[0] == "call" and re.search(r"(::index|::get|::split_at|::skip|::take|::filter|::step_by)$", str(x[1])):
                return None
            if x[0] == "agg" and isinstance(x[1], tuple) and x[1] and x[1][0] == "closure":
                nm = x[1][1]
                summ = self.summary.get(nm)
                if summ:
                    sets = [s_ for s_ in summ]
                    m = frozenset.intersection(*sets) if sets else EMPTY
                    must = m if must is None else (must | m)
        return must

    def analyse(self, fn, start=0, blocks=None, init=None):
        """dataflow over one function (or a region of it). Returns instate map."""
        errb = kit.error_blocks(fn)
        erre = kit.result_err_edges(fn)
        lps = kit.loops(fn)
        # for-all loops over AsmLine: header -> must stages per iteration
        forall = {}
        for h, (body, latches) in lps.items():
            t = fn.term(h)
            if t["k"] == "call" and _is_asmline_next(t, fn):
                forall[h] = (body, latches)
        must_iter = {}

        def transfer(b, st):
            if b in errb:
                return None
            t = fn.term(b)
            if t["k"] == "call":
                cs = self.call_sets(t)
                if not cs:
                    return None
                out = frozenset(a | c for a in st for c in cs)
                must = self._exhausting_map(fn, t)
                if must:
                    out = frozenset(a | must for a in out)
                return out
            return st

        def edge(src, dst, st):
            if (src, dst) in erre:
                return None
            return st

        def join(a, b):
            return a | b

        # per-iteration must stages for for-all loops (computed on the loop body only)
        for h, (body, latches) in forall.items():
            t = fn.term(h)
            entry = t["t"]
            ins = kit.forward(fn, frozenset([EMPTY]), transfer, join, start=entry,
                              blocks=body - {h}, edge=edge)
            sets = []
            for u in latches:
                if u in ins:
                    o = transfer(u, ins[u])
                    if o:
                        sets.extend(o)
            must_iter[h] = frozenset.intersection(*sets) if sets else EMPTY

        def edge2(src, dst, st):
            st = edge(src, dst, st)
            if st is None:
                return None
            # leaving a for-all loop through its header's successor chain: the `None` arm
            return st

        # apply the for-all contribution on edges that leave the loop body
        def edge3(src, dst, st):
            st = edge2(src, dst, st)
            if st is None:
                return None
            for h, (body, latches) in forall.items():
                if src in body and dst not in body and must_iter.get(h):
                    # only the regular exit (taken from the header's `next() == None` test) counts
                    exit_srcs = self._exit_sources(fn, h, body)
                    if src in exit_srcs:
                        st = frozenset(a | must_iter[h] for a in st)
            return st

        ins = kit.forward(fn, init or frozenset([EMPTY]), transfer, join, start=start, blocks=blocks, edge=edge3)
        self._last = (transfer,)
        return ins, transfer

    def _exit_sources(self, fn, h, body):
        """blocks of the loop from which the regular exit is taken: the switch on next()'s result"""
        t = fn.term(h)
        nxt = t.get("t")
        out = set()
        if nxt is not None and nxt in body:
            out.add(nxt)
        out.add(h)
        return out

    def fn_summary(self, fn):
        ins, transfer = self.analyse(fn)
        res = set()
        for b in fn.exits():
            if b in ins:
                o = transfer(b, ins[b])
                if o:
                    res |= o
        return frozenset(res)

    def _solve(self):
        names = sorted(n for n in self.may if n not in self.stages)
        for n in names:
            self.summary[n] = frozenset()
        for _ in range(12):
            changed = False
            for n in names:
                fn = self.prog.fns[n]
                if fn.bkind != "fn":
                    continue
                s = self.fn_summary(fn)
                if s != self.summary[n]:
                    self.summary[n] = s
                    changed = True
            if not changed:
                break


ADHOC_RX = re.compile(r"miette::(miette_diagnostic::MietteDiagnostic::new|eyreish::.*Report(<.*>)?::(msg|new|from_adhoc)|eyreish::.*::msg$)")


def adhoc_fns(prog):
    """bin-crate functions/closures that construct an error of their own (`bail!`, `miette!`): name -> [spans]"""
    out = {}
    for n, f in prog.fns.items():
        if not n.startswith("bin::") or f.bkind != "fn":
            continue
        for b, t, c in f.calls():
            if c and ADHOC_RX.search(c):
                out.setdefault(n, []).append((b, t.get("sp")))
    return out


def adhoc_in_call(prog, adhoc, t):
    """does this call terminator construct an ad-hoc error itself, or hand the callee a closure that does?"""
    c = callee_of(t)
    if c and ADHOC_RX.search(c):
        return c
    for cl in t["f"].get("closures", []):
        nm = cl[3:] if cl.startswith("fn:") else cl
        if nm in adhoc:
            return nm
    return None

