#!/usr/bin/env python3
"""Pretty-print MIR facts: tools/mir.py <regex> [profile]"""
import os, sys, re
sys.path.insert(0, os.path.dirname(os.path.dirname(os.path.abspath(__file__))))
from lacecheck import extract
from lacecheck.facts import Program, place_str, expr_str, callee_of, short

def opstr(f, op):
    if op.get('k') == 'const':
        if 'int' in op: return 'const %s_%s' % (op['int'], op['ty'])
        if 'str' in op: return 'const %r' % op['str']
        if 'fn' in op: return 'fn ' + short(op.get('resolved') or op['fn'])
        if 'uneval' in op: return 'const ' + short(op['uneval']) + ('::promoted[%s]' % op['promoted'] if op.get('promoted') is not None else '')
        if 'bytes' in op: return 'bytes %r' % bytes(op['bytes'])[:60]
        return 'const <%s>' % op.get('dbg', op.get('ty'))
    return op['k'] + ' ' + place_str(f, op['p'])

def rv(f, r):
    k = r['k']
    if k == 'use': return opstr(f, r['a'])
    if k == 'bin': return '%s(%s, %s)' % (r['op'], opstr(f, r['a']), opstr(f, r['b']))
    if k == 'un': return '%s(%s)' % (r['op'], opstr(f, r['a']))
    if k == 'cast': return '%s as %s (%s)' % (opstr(f, r['a']), r['ty'], r['ck'])
    if k == 'ref': return '&%s %s' % (r['bk'], place_str(f, r['p']))
    if k == 'rawptr': return '&raw %s' % place_str(f, r['p'])
    if k == 'discr': return 'discriminant(%s)' % place_str(f, r['p'])
    if k == 'agg':
        d = r.get('adt', r.get('closure', r.get('ak')))
        if r.get('variant'): d = '%s::%s' % (short(d), r['variant'])
        return '%s {%s}' % (d, ', '.join(opstr(f, o) for o in r['ops']))
    return '<%s %s>' % (k, r.get('dbg', ''))

def dump(f):
    print('fn %s  [%s] args=%d' % (f.name, f.span, f.arg_count))
    for i, l in enumerate(f.locals):
        if l.get('name'): print('    let _%d: %s  // %s' % (i, l['ty'], l['name']))
    for b, blk in enumerate(f.blocks):
        print('  bb%d%s:' % (b, ' (cleanup)' if blk.get('cleanup') else ''))
        for s in blk['stmts']:
            if s['k'] == 'assign':
                print('      %s = %s    // %s %s' % (place_str(f, s['p']), rv(f, s['r']), s['sp'].split(':',1)[1] if ':' in s['sp'] else '', ','.join(s.get('mac', []))))
            else:
                print('      %s' % s)
        t = blk['term']; k = t['k']
        loc = t.get('sp', '').split(':', 1)[-1] + ' ' + ','.join(t.get('mac', []))
        if k == 'goto': print('      goto bb%d' % t['t'])
        elif k == 'switch': print('      switch(%s) %s else bb%d   // %s' % (opstr(f, t['a']), ' '.join('%s:bb%d' % (v, x) for v, x in t['targets']), t['otherwise'], loc))
        elif k == 'call': print('      %s = %s(%s) -> %s   // %s' % (place_str(f, t['dest']), short(callee_of(t) or '<indirect %s>' % opstr(f, t['f'])), ', '.join(opstr(f, a) for a in t['args']), 'bb%s' % t['t'] if t['t'] is not None else '!', loc))
        elif k == 'assert': print('      assert(%s == %s, %s [%s]) -> bb%d   // %s' % (opstr(f, t['cond']), t['expected'], t['ak'], ', '.join(opstr(f, o) for o in t['ops']), t['t'], loc))
        elif k == 'drop': print('      drop(%s) -> bb%d' % (place_str(f, t['p']), t['t']))
        else: print('      %s' % k)

if __name__ == '__main__':
    prof = sys.argv[2] if len(sys.argv) > 2 else 'dev'
    fdir, _ = extract.extract(prof)
    P = Program(fdir)
    for f in P.find(sys.argv[1]):
        dump(f); print()
