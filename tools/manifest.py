#!/usr/bin/env python3
"""Regenerate MANIFEST.json from the rule modules that exist (claims) + the NA table."""
import importlib, json, os, sys
ROOT = os.path.dirname(os.path.dirname(os.path.abspath(__file__)))
sys.path.insert(0, ROOT)
props = [json.loads(l) for l in open(os.path.join(ROOT, "properties.jsonl"))]
checks, na = [], []
served = []
for p in props:
    pid = p["id"]
    try:
        mod = importlib.import_module("lacecheck.rules." + pid.lower())
    except ImportError:
        na.append({"property_id": pid, "reason": "no static rule built yet for this property (work in progress; see DESIGN.md §9)"})
        continue
    if getattr(mod, "NOT_APPLICABLE", None):
        na.append({"property_id": pid, "reason": mod.NOT_APPLICABLE})
        continue
    served.append(pid)
    checks.append({
        "property_id": pid,
        "quick_cmd": "./check %s --tier quick" % pid,
        "thorough_cmd": "./check %s --tier thorough" % pid,
        "evidence_file": "/verif/evidence/%s.json" % pid,
        "replay_cmd_template": "./check %s --explain {path}" % pid,
        "engine": "lacecheck",
        "level_claimed": {
            "category": "other",
            "text": getattr(mod, "LEVEL_TEXT", None) or (
                "Static analysis of the type-checked program (rustc MIR/HIR facts of /repo's working tree): decides the "
                "structural clauses listed in the evidence for *every* execution of the inspected constructs; it does not "
                "run lace. " + mod.EXPLANATION),
            "design_ref": "DESIGN.md §4 %s" % pid,
        },
        "level_note": "Not decided (run-time quantified): %s. Trusted: rustc nightly MIR construction and Instance "
                      "resolution, the extractor in /verif/driver, the spec tables in /verif/spec, std library summaries "
                      "named in the evidence." % getattr(mod, "NOT_DECIDED", "see DESIGN.md"),
        "technique": getattr(mod, "TECHNIQUE", "static analysis: custom MIR rules (dominance, must-pass-through, call graph, tables)"),
    })
man = {
    "version": 1,
    "setup_cmd": "python3 -m lacecheck.extract",
    "hooks": {
        "guard": "lace_verif",
        "enable": "none needed: nothing in /repo is instrumented or executed; checks read MIR from `cargo +nightly check` through /verif/driver",
        "baseline_off_cmd": "cd /repo && cargo test --workspace --no-fail-fast --offline",
        "source_commits": [],
        "add_only": True,
    },
    "engines": [
        {"name": "lacefacts", "path": "driver/", "serves_properties": served,
         "kind_free_text": "rustc_private driver (RUSTC_WORKSPACE_WRAPPER) dumping MIR/HIR/ADT facts as JSON; decides nothing"},
        {"name": "lacecheck", "path": "lacecheck/", "serves_properties": served,
         "kind_free_text": "Python 3 (stdlib) static rules over the facts: CFG dominance/must-pass, call graph, tables, known-bits, intervals, linear forms, panic ledger"},
    ],
    "checks": checks,
    "not_applicable": na,
    "notes": "Technique family: static analysis only. Every check re-extracts facts when /repo's tree hash changes. "
             "Genuine defects found on the pinned tree are repaired by `fix:` commits in /repo and listed in known_findings.json.",
}
json.dump(man, open(os.path.join(ROOT, "MANIFEST.json"), "w"), indent=1)
print("MANIFEST: %d checks, %d not_applicable" % (len(checks), len(na)))
