#!/usr/bin/env python3
"""tools/mkanchors.py — regenerate tables/anchors.json (reference function table for lacecheck/alias.py) from the facts of
/repo's current tree. Run it only on a tree on which all 20 checks pass: the table is the frozen reference the rename
matcher compares later trees against."""
import json, os, sys
ROOT = os.path.dirname(os.path.dirname(os.path.abspath(__file__)))
sys.path.insert(0, ROOT)
from lacecheck import extract, alias
fdir, _ = extract.extract("dev")
fns, adts = {}, {}
for f in ("lace-lib.json", "lace-bin.json"):
    d = json.load(open(os.path.join(fdir, f)))
    fns.update(d["fns"])
    adts.update(d.get("adts", {}))
snap = alias.snapshot(fns)
snap[alias.FIELDS_KEY] = alias.field_snapshot(adts, fns)
json.dump(snap, open(alias.ANCHORS, "w"), indent=0, sort_keys=True)
print("%d reference functions written to %s" % (len(snap), alias.ANCHORS))
