#!/usr/bin/env python3
"""tools/mkanchors.py — regenerate tables/anchors.json (reference function table for lacecheck/alias.py) from the facts of
/repo's current tree. Run it only on a tree on which all 20 checks pass: the table is the frozen reference the rename
matcher compares later trees against."""
import json, os, sys
ROOT = os.path.dirname(os.path.dirname(os.path.abspath(__file__)))
sys.path.insert(0, ROOT)
from lacecheck import extract, alias
fdir, _ = extract.extract("dev")
fns, adts = {}, {}
for f in ("lace-lib.json", "lace-bin.json"):
    d = json.load(open(os.path.join(fdir, f)))
    fns.update(d["fns"])
    adts.update(d.get("adts", {}))
snap = alias.snapshot(fns)
snap[alias.FIELDS_KEY] = alias.field_snapshot(adts, fns)
json.dump(snap, open(alias.ANCHORS, "w"), indent=0, sort_keys=True)
print("%d reference functions written to %s" % (len(snap), alias.ANCHORS))

# what each named local of a function with reviewed panic-ledger entries stood for on the reference tree: lets the ledger recognise a
# site whose named temporary was written into the expression (`let n = chars.len(); s.split_at(n)` -> `s.split_at(chars.len())`)
from lacecheck.facts import Program, expr_str, short, callee_of
P = Program(fdir)
led = json.load(open(os.path.join(ROOT, "tables", "ledger.json")))
led = led if isinstance(led, list) else led.get("entries", led)
wanted = {e["key"].split("|", 1)[0] for e in led}
named = {}
for n, f in sorted(P.fns.items()):
    if short(n) not in wanted or f.bkind != "fn":
        continue
    tab = {}
    for l in range(len(f.locals)):
        nm = f.local_name(l)
        if not nm or f.is_arg(l):
            continue
        sd = f.single_def(l)
        if not sd:
            continue
        if sd[0] == "stmt":
            e = f.rvalue_expr(sd[3]["r"], 8, stop={"named"})
        elif sd[0] == "call":
            e = ("call", callee_of(sd[3]) or "<indirect>", tuple(f.expr(a, 8, stop={"named"}) for a in sd[3]["args"]))
        else:
            continue
        txt = expr_str(e, 120)
        if nm in tab and tab[nm] != txt:
            tab[nm] = None          # two locals of one name: ambiguous, not used
        else:
            tab[nm] = txt
    tab = {k: v for k, v in tab.items() if v}
    if tab:
        named[short(n)] = tab
json.dump(named, open(os.path.join(ROOT, "tables", "named_locals.json"), "w"), indent=0, sort_keys=True)
print("named locals of %d functions written" % len(named))
