#!/usr/bin/env python3
"""tools/seedeval.py C03 [C04 ...] [--nums 3,4] [--no-check] — confirm sub-agent mutants in their scratch worktree, run all checks against each,
and file the confirmed ones under /verif/seeded/<prop>-<n>/."""
import json, os, shutil, subprocess, sys, time
ROOT = os.path.dirname(os.path.dirname(os.path.abspath(__file__)))
def sh(cmd, cwd=None, timeout=1200):
    r = subprocess.run(cmd, shell=True, cwd=cwd, stdout=subprocess.PIPE, stderr=subprocess.STDOUT, timeout=timeout)
    return r.returncode, r.stdout.decode(errors="replace")
def main():
    nums = None
    for i, a in enumerate(sys.argv):
        if a == "--nums":
            nums = set(sys.argv[i + 1].split(","))
    for prop in [a for a in sys.argv[1:] if a.startswith("C")]:
        wt = "/tmp/mut/%s" % prop
        for n in sorted(os.listdir(os.path.join(wt, "MUTANT"))) if os.path.isdir(os.path.join(wt, "MUTANT")) else []:
            if nums and n not in nums:
                continue
            md = os.path.join(wt, "MUTANT", n)
            patch = os.path.join(md, "patch.diff")
            if not os.path.exists(patch):
                continue
            out = os.path.join(ROOT, "seeded", "%s-%s" % (prop, n))
            rec = {"property": prop, "id": "%s-%s" % (prop, n)}
            try:
                rec.update(json.load(open(os.path.join(md, "meta.json"))))
            except Exception as e:
                rec["meta_error"] = str(e)
            sh("git checkout -- . && git clean -fdq -- src tests", cwd=wt)
            rc, o = sh("git apply %s" % patch, cwd=wt)
            if rc != 0:
                rec["confirmed"] = False; rec["why"] = "patch does not apply: " + o[-300:]
                print(json.dumps({"id": rec["id"], "confirmed": False, "why": rec["why"]})); continue
            rc_b, o_b = sh("cargo build --offline 2>&1 | tail -3", cwd=wt)
            rc_t, o_t = sh("cargo test --offline 2>&1 | grep -E '^test result|FAILED|panicked' | head -12", cwd=wt)
            tests_ok = "FAILED" not in o_t and o_t.count("test result: ok") >= 4
            demo = "demo.sh"
            rc_d1, o_d1 = sh("bash %s" % os.path.join(md, demo), cwd=wt, timeout=900)
            sh("git checkout -- . && git clean -fdq -- src tests", cwd=wt)
            sh("cargo build --offline 2>&1 | tail -1", cwd=wt)
            rc_d0, o_d0 = sh("bash %s" % os.path.join(md, demo), cwd=wt, timeout=900)
            confirmed = tests_ok and rc_d1 != 0 and rc_d0 == 0
            rec["confirmed"] = confirmed
            rec["ran"] = {"tests_with_patch": o_t.strip().splitlines()[:6], "demo_exit_with_patch": rc_d1, "demo_exit_clean": rc_d0,
                          "demo_tail_with_patch": o_d1.strip().splitlines()[-4:]}
            fired = None
            if confirmed:
                if "--no-check" in sys.argv:
                    fired = {}          # confirm and file only; tools/seedmatrix.py --only ... runs the checks (in parallel, on scratch worktrees)
                else:
                    rc_s, o_s = sh("%s %s" % (os.path.join(ROOT, "tools", "seedrun.py"), patch), cwd=ROOT, timeout=1800)
                    try:
                        fired = json.loads(o_s[o_s.index("{"):])["fired"]
                    except Exception:
                        fired = {"error": o_s[-400:]}
                rec["checks_fired"] = fired
                rec["detected"] = bool(fired) and "error" not in fired
                rec["detected_by_own_property"] = prop in (fired or {})
                os.makedirs(out, exist_ok=True)
                shutil.copy(patch, os.path.join(out, "patch.diff"))
                for f in os.listdir(md):
                    if f not in ("patch.diff", "meta.json"):
                        src = os.path.join(md, f)
                        if os.path.isfile(src):
                            shutil.copy(src, os.path.join(out, f))
                json.dump(rec, open(os.path.join(out, "meta.json"), "w"), indent=1)
            print(json.dumps({"id": rec["id"], "confirmed": confirmed, "tests_ok": tests_ok, "demo": [rc_d1, rc_d0],
                              "fired": sorted(fired) if isinstance(fired, dict) else None, "summary": rec.get("summary", "")[:140]}))
            sys.stdout.flush()
if __name__ == "__main__":
    main()
