#!/usr/bin/env python3
"""tools/seedmatrix.py [--only C01-1,...] [--no-benign] [--jobs N]
Re-run all 20 quick checks against every kept seeded change (/verif/seeded/<id>/patch.diff) and every benign edit
(/verif/selftest/benign/*.diff). Each patch is applied to /repo, checked, and reverted straight afterwards (tools/seedrun.py).
Updates `checks_fired` / `detected*` in each meta.json and writes /verif/seeded/MATRIX.md.
With --jobs N the patches are spread over N scratch worktrees of /repo's HEAD under /tmp/lace-mx (created and removed here; /repo itself is
not touched), each with its own extractor target dir (LACE_BUILD_TAG).
Exit 0 iff every seeded change is reported by at least one check and no benign edit is reported by any."""
import glob, json, os, subprocess, sys
ROOT = os.path.dirname(os.path.dirname(os.path.abspath(__file__)))


JOBS = 1
_WORKERS = None


def _setup_workers(n):
    import queue
    global _WORKERS
    _WORKERS = queue.Queue()
    base = "/tmp/lace-mx"
    os.makedirs(base, exist_ok=True)
    for k in range(n):
        d = os.path.join(base, "w%d" % k)
        subprocess.run(["git", "-C", "/repo", "worktree", "remove", "--force", d], stdout=subprocess.DEVNULL, stderr=subprocess.DEVNULL)
        r = subprocess.run(["git", "-C", "/repo", "worktree", "add", "-q", "--detach", d, "HEAD"], stdout=subprocess.PIPE, stderr=subprocess.STDOUT)
        if r.returncode != 0:
            raise SystemExit("cannot create scratch worktree %s: %s" % (d, r.stdout.decode()))
        _WORKERS.put((k, d))


def _teardown_workers(n):
    for k in range(n):
        d = os.path.join("/tmp/lace-mx", "w%d" % k)
        subprocess.run(["git", "-C", "/repo", "worktree", "remove", "--force", d], stdout=subprocess.DEVNULL, stderr=subprocess.DEVNULL)
    try:
        os.rmdir("/tmp/lace-mx")
    except OSError:
        pass


def seedrun(patch):
    cmd = [os.path.join(ROOT, "tools", "seedrun.py"), patch]
    if os.environ.get("LACE_MX_PROPS"):          # restrict the checks run (fast re-runs after one rule file changed)
        cmd += ["--props", os.environ["LACE_MX_PROPS"]]
    env = dict(os.environ)
    w = None
    if _WORKERS is not None:
        w = _WORKERS.get()
        cmd += ["--repo", w[1]]
        env["LACE_BUILD_TAG"] = "w%d" % w[0]
    try:
        r = subprocess.run(cmd, stdout=subprocess.PIPE, stderr=subprocess.STDOUT, cwd=ROOT, env=env)
    finally:
        if w is not None:
            _WORKERS.put(w)
    out = r.stdout.decode()
    i = out.find('{\n "patch"')
    if i < 0:
        raise SystemExit("seedrun failed on %s:\n%s" % (patch, out[-2000:]))
    return json.loads(out[i:])["fired"]


def _map(fn, items):
    if JOBS <= 1:
        return [fn(x) for x in items]
    from concurrent.futures import ThreadPoolExecutor
    with ThreadPoolExecutor(max_workers=JOBS) as ex:
        return list(ex.map(fn, items))


def main():
    global JOBS
    only = None
    for i, a in enumerate(sys.argv):
        if a == "--only":
            only = set(sys.argv[i + 1].split(","))
        if a == "--jobs":
            JOBS = int(sys.argv[i + 1])
    if JOBS > 1:
        _setup_workers(JOBS)
    try:
        return _main(only)
    finally:
        if JOBS > 1:
            _teardown_workers(JOBS)


def _main(only):
    rows, bad = [], 0
    dirs = [d for d in sorted(glob.glob(os.path.join(ROOT, "seeded", "C*-*")), key=lambda d: (os.path.basename(d).split("-")[0], int(os.path.basename(d).split("-")[1])))
            if not only or os.path.basename(d) in only]

    def one(d):
        sid = os.path.basename(d)
        fired = seedrun(os.path.join(d, "patch.diff"))
        mp = os.path.join(d, "meta.json")
        meta = json.load(open(mp))
        meta["checks_fired"] = fired
        meta["detected"] = bool(fired)
        meta["detected_by_own_property"] = meta["property"] in fired
        json.dump(meta, open(mp, "w"), indent=1)
        rules = sorted({l.split("  ")[1] for ls in fired.values() for l in ls if len(l.split("  ")) > 2})
        print(sid, sorted(fired), rules, flush=True)
        return (sid, meta["property"], sorted(fired), rules, meta["summary"][:110].replace("|", "/"))
    rows = _map(one, dirs) if "--only-benign" not in sys.argv else []
    bad += sum(1 for r in rows if not r[2])
    brow = []
    bonly = None
    for i, a in enumerate(sys.argv):
        if a == "--only-benign":
            bonly = sys.argv[i + 1]          # regex over the file name; implies no seeded run and no MATRIX.md
    if bonly:
        import re as _re
        def oneb(p):
            fired = seedrun(p)
            jp = p[:-5] + ".json"
            if os.path.exists(jp):
                jm = json.load(open(jp))
                jm["checks_fired"] = fired
                json.dump(jm, open(jp, "w"), indent=1)
            print(os.path.basename(p), sorted(fired), flush=True)
            return (os.path.basename(p), sorted(fired))
        brow = _map(oneb, [p for p in sorted(glob.glob(os.path.join(ROOT, "selftest", "benign", "*.diff"))) if _re.search(bonly, os.path.basename(p))])
        return 1 if any(r[1] for r in brow) else 0
    if "--no-benign" not in sys.argv and not only:
        def oneb(p):
            fired = seedrun(p)
            jp = p[:-5] + ".json"
            if os.path.exists(jp):
                jm = json.load(open(jp))
                jm["checks_fired"] = fired
                json.dump(jm, open(jp, "w"), indent=1)
            print(os.path.basename(p), sorted(fired), flush=True)
            return (os.path.basename(p), sorted(fired))
        brow = _map(oneb, sorted(glob.glob(os.path.join(ROOT, "selftest", "benign", "*.diff"))))
        bad += sum(1 for r in brow if r[1])
    if only and "--rewrite" in sys.argv:
        # partial run: rebuild every row from the stored meta.json files (the re-run ones were just updated); benign rows are kept as they are
        rows = []
        for d in sorted(glob.glob(os.path.join(ROOT, "seeded", "C*-*")), key=lambda d: (os.path.basename(d).split("-")[0], int(os.path.basename(d).split("-")[1]))):
            m = json.load(open(os.path.join(d, "meta.json")))
            fired = m.get("checks_fired") or {}
            rules = sorted({l.split("  ")[1] for ls in fired.values() for l in ls if len(l.split("  ")) > 2})
            rows.append((os.path.basename(d), m["property"], sorted(fired), rules, m["summary"][:110].replace("|", "/")))
        for p in sorted(glob.glob(os.path.join(ROOT, "selftest", "benign", "*.diff"))):
            jp = p[:-5] + ".json"
            brow.append((os.path.basename(p), sorted((json.load(open(jp)).get("checks_fired") or {})) if os.path.exists(jp) else []))
    if not only or "--rewrite" in sys.argv:
        with open(os.path.join(ROOT, "seeded", "MATRIX.md"), "w") as f:
            f.write("# Seeded changes vs. checks (regenerated by tools/seedmatrix.py; quick tier, dev profile)\n\n")
            f.write("Every change compiles, keeps the 72 repository tests green, and has a demonstration (demo.* in its directory).\n\n")
            f.write("| change | breaks | reported by | rules | what it is |\n|---|---|---|---|---|\n")
            for sid, prop, props, rules, summ in rows:
                f.write("| %s | %s | %s | %s | %s |\n" % (sid, prop, ", ".join(props) or "**missed**", ", ".join(rules), summ))
            f.write("\n%d/%d reported; %d by the check of the property they were written against.\n" % (
                sum(1 for r in rows if r[2]), len(rows), sum(1 for r in rows if r[1] in r[2])))
            if brow:
                f.write("\n## Benign (behaviour-preserving) edits — every check must stay silent\n\n| edit | reported by |\n|---|---|\n")
                for n, props in brow:
                    f.write("| %s | %s |\n" % (n, ", ".join(props) or "—"))
    return 1 if bad else 0


if __name__ == "__main__":
    sys.exit(main())
