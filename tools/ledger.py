#!/usr/bin/env python3
"""tools/ledger.py <entry-regex>[,<entry>...] [profile] — list panic sites reachable and their discharge status"""
import os, sys, re
sys.path.insert(0, os.path.dirname(os.path.dirname(os.path.abspath(__file__))))
from lacecheck import core, panics
from lacecheck.facts import short
ctx = core.Ctx("TOOL", "quick", sys.argv[2] if len(sys.argv) > 2 else "dev")
ents = []
for pat in sys.argv[1].split(","):
    ents += [n for n in ctx.prog.fns if re.search(pat, n) and ctx.prog.fns[n].bkind == "fn"]
print("entries:", [short(e) for e in ents])
L = panics.Ledger(ctx, ents, include_exits=True)
print("reachable fns:", len(L.reach))
for s in L.sites:
    ok = L.discharge(s)
    print("%-4s %-22s %-26s %s   <%s>" % ("ok" if ok else "OPEN", s.where().replace("src/", ""), (s.tactic or "")[:26], s.key[:150], (s.why or "")[:0]))
print(len(L.sites), "sites;", sum(1 for s in L.sites if s.tactic), "discharged")
