#!/opt/veriftools/pyvenv/bin/python
import json, jsonschema, glob, sys
jsonschema.validate(json.load(open('/verif/MANIFEST.json')), json.load(open('/root/.vp/MANIFEST.schema.json')))
sch = json.load(open('/root/.vp/EVIDENCE.schema.json'))
n = 0
for f in glob.glob('/verif/evidence/C*.json'):
    jsonschema.validate(json.load(open(f)), sch); n += 1
print('manifest valid; %d evidence files valid' % n)
