#!/usr/bin/env python3
"""tools/designmatrix.py — rewrite the table between <!-- MATRIX:BEGIN --> and <!-- MATRIX:END --> in DESIGN.md from
seeded/*/meta.json and selftest/benign/*.json (as last updated by tools/seedmatrix.py / tools/benigneval.py)."""
import glob, json, os, re
ROOT = os.path.dirname(os.path.dirname(os.path.abspath(__file__)))
rows = []
for d in sorted(glob.glob(os.path.join(ROOT, "seeded", "C*-*"))):
    m = json.load(open(os.path.join(d, "meta.json")))
    fired = m.get("checks_fired") or {}
    rules = sorted({l.split("  ")[1] for ls in fired.values() for l in ls if len(l.split("  ")) > 2})
    what = re.sub(r"\s+", " ", m.get("summary", ""))[:95].replace("|", "/")
    rows.append((os.path.basename(d), m["property"], sorted(fired), rules, what))
out = ["| change | written against | reported by | rules that fire | what the change is (first words of its meta.json) |", "|---|---|---|---|---|"]
for sid, prop, props, rules, what in rows:
    out.append("| %s | %s | %s | %s | %s |" % (sid, prop, ", ".join(props) or "**missed**", ", ".join(rules), what))
n = len(rows); hit = sum(1 for r in rows if r[2]); own = sum(1 for r in rows if r[1] in r[2])
out.append("")
out.append("%d/%d changes are reported by at least one check; %d by the check of the property they were written against." % (hit, n, own))
ben = sorted(glob.glob(os.path.join(ROOT, "selftest", "benign", "*.diff")))
quiet = []
for p in ben:
    j = p[:-5] + ".json"
    fired = None
    if os.path.exists(j):
        fired = json.load(open(j)).get("checks_fired")
    quiet.append((os.path.basename(p), fired))
out.append("")
out.append("Behaviour-preserving edits kept under `selftest/benign/` (%d): %s." % (len(ben), ", ".join(os.path.basename(p)[:-5] for p in ben)))
p = os.path.join(ROOT, "DESIGN.md")
s = open(p).read()
a, b = s.index("<!-- MATRIX:BEGIN -->"), s.index("<!-- MATRIX:END -->")
s = s[:a] + "<!-- MATRIX:BEGIN -->\n" + "\n".join(out) + "\n" + s[b:]
open(p, "w").write(s)
print("%d rows written" % n)
