#!/usr/bin/env python3
"""tools/seedrun.py <patch.diff> [--props C01,C02] [--tier quick] [--repo DIR]
Apply a patch to /repo (or to the scratch worktree DIR), run the checks, undo the patch (always). Prints which properties raised a violation."""
import os, subprocess, sys, json, re
ROOT = os.path.dirname(os.path.dirname(os.path.abspath(__file__)))
REPO = "/repo"
def sh(*a, **k):
    return subprocess.run(a, stdout=subprocess.PIPE, stderr=subprocess.STDOUT, **k)
def main():
    global REPO
    patch = os.path.abspath(sys.argv[1])
    props = ["C%02d" % i for i in range(1, 21)]
    tier = "quick"
    for i, a in enumerate(sys.argv):
        if a == "--props":
            props = sys.argv[i + 1].split(",")
        if a == "--tier":
            tier = sys.argv[i + 1]
        if a == "--repo":
            REPO = os.path.abspath(sys.argv[i + 1])
    st = sh("git", "-C", REPO, "status", "--porcelain").stdout.decode()
    if st.strip():
        print("refusing: /repo is not clean:\n" + st); return 2
    r = sh("git", "-C", REPO, "apply", patch)
    if r.returncode != 0:
        print("patch does not apply:", r.stdout.decode()); return 2
    fired = {}
    try:
        for p in props:
            r = sh(os.path.join(ROOT, "check"), p, "--tier", tier, *(["--repo", REPO] if REPO != "/repo" else []), cwd=ROOT)
            out = r.stdout.decode()
            if r.returncode != 0 or "VIOLATION" in out:
                lines = [l for l in out.splitlines() if l and not l.startswith("    key") and not l.startswith("VIOLATION") and not l.startswith("WARNING") and not l.startswith("KNOWN")]
                fired[p] = lines[-16:] if "Traceback" in out else lines[:-1][:4]
    finally:
        sh("git", "-C", REPO, "checkout", "--", ".")
        sh("git", "-C", REPO, "clean", "-fdq", "--", "src", "tests")
    print(json.dumps({"patch": patch, "fired": fired}, indent=1)[:6000])
    return 0 if fired else 1
if __name__ == "__main__":
    sys.exit(main())
