#!/usr/bin/env python3
"""tools/benigneval.py [--confirm-only | --check-only] [--base /tmp/mut] [--nums 4,5,6] C03 [C04 ...]
Take the behaviour-preserving refactorings sub-agents left in <base>/<prop>/BENIGN/<n>/ (patch.diff, demo.sh, meta.json).
Stage 1 (--confirm-only; one process per property may run in parallel, only the scratch worktree is touched): re-confirm each
one there - it builds, the 72 tests pass, its sanity demonstration passes with and without the patch - and leave confirmed.json.
Stage 2 (--check-only; serial, each confirmed patch is applied to /repo in turn by tools/seedrun.py and reverted): run all 20
checks and file the patch as /verif/selftest/benign/r<prop>-<n>.diff (+ .json with the agent's equivalence argument and
which checks, if any, raised an alarm). Without a flag both stages run."""
import json, os, shutil, subprocess, sys
ROOT = os.path.dirname(os.path.dirname(os.path.abspath(__file__)))


def sh(cmd, cwd=None, timeout=1800):
    r = subprocess.run(cmd, shell=True, cwd=cwd, stdout=subprocess.PIPE, stderr=subprocess.STDOUT, timeout=timeout)
    return r.returncode, r.stdout.decode(errors="replace")


def main():
    confirm_only = "--confirm-only" in sys.argv
    check_only = "--check-only" in sys.argv
    file_only = "--file-only" in sys.argv      # file the confirmed patches under selftest/benign without running the checks (seedmatrix does that)
    base, nums = "/tmp/mut", None
    for i, a in enumerate(sys.argv):
        if a == "--base":
            base = sys.argv[i + 1]
        if a == "--nums":
            nums = set(sys.argv[i + 1].split(","))
    for prop in [a for a in sys.argv[1:] if a.startswith("C") and len(a) == 3]:
        wt = os.path.join(base, prop)
        bdir = os.path.join(wt, "BENIGN")
        for n in sorted(os.listdir(bdir)) if os.path.isdir(bdir) else []:
            if nums and n not in nums:
                continue
            md = os.path.join(bdir, n)
            patch = os.path.join(md, "patch.diff")
            if not os.path.exists(patch):
                continue
            rid = "r%s-%s" % (prop, n)
            rec = {"property": prop, "id": rid}
            try:
                rec.update(json.load(open(os.path.join(md, "meta.json"))))
            except Exception as e:
                rec["meta_error"] = str(e)
            cf = os.path.join(md, "confirmed.json")
            if check_only and os.path.exists(cf):
                c = json.load(open(cf))
                confirmed, tests_ok, rc_d1, rc_d0 = c["confirmed"], c["tests_ok"], c["demo"][0], c["demo"][1]
                rec["ran"] = c["ran"]
            else:
                sh("git checkout -- . && git clean -fdq -- src tests", cwd=wt)
                rc, o = sh("git apply %s" % patch, cwd=wt)
                if rc != 0:
                    print(json.dumps({"id": rid, "confirmed": False, "why": "patch does not apply: " + o[-200:]}))
                    continue
                sh("cargo build --offline 2>&1 | tail -3", cwd=wt)
                rc_t, o_t = sh("cargo test --offline 2>&1 | grep -E '^test result|FAILED|panicked|error' | head -12", cwd=wt)
                tests_ok = "FAILED" not in o_t and "error" not in o_t and o_t.count("test result: ok") >= 4
                rc_d1, o_d1 = sh("bash %s" % os.path.join(md, "demo.sh"), cwd=wt, timeout=1500)
                sh("git checkout -- . && git clean -fdq -- src tests", cwd=wt)
                sh("cargo build --offline 2>&1 | tail -1", cwd=wt)
                rc_d0, o_d0 = sh("bash %s" % os.path.join(md, "demo.sh"), cwd=wt, timeout=1500)
                confirmed = tests_ok and rc_d1 == 0 and rc_d0 == 0
                rec["ran"] = {"tests_with_patch": o_t.strip().splitlines()[:6], "demo_exit_with_patch": rc_d1, "demo_exit_clean": rc_d0}
                json.dump({"confirmed": confirmed, "tests_ok": tests_ok, "demo": [rc_d1, rc_d0], "ran": rec["ran"]}, open(cf, "w"))
            rec["confirmed"] = confirmed
            fired = None
            if confirmed and not confirm_only:
                if file_only:
                    fired = {}
                else:
                    rc_s, o_s = sh("%s %s" % (os.path.join(ROOT, "tools", "seedrun.py"), patch), cwd=ROOT, timeout=1800)
                    try:
                        fired = json.loads(o_s[o_s.index('{\n "patch"'):])["fired"]
                    except Exception:
                        fired = {"error": o_s[-400:]}
                rec["checks_fired"] = fired
                out = os.path.join(ROOT, "selftest", "benign", rid)
                shutil.copy(patch, out + ".diff")
                json.dump(rec, open(out + ".json", "w"), indent=1)
            print(json.dumps({"id": rid, "confirmed": confirmed, "tests_ok": tests_ok, "demo": [rc_d1, rc_d0],
                              "fired": sorted(fired) if isinstance(fired, dict) else None, "summary": rec.get("summary", "")[:120]}))
            sys.stdout.flush()


if __name__ == "__main__":
    main()
