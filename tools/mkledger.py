#!/usr/bin/env python3
"""Source of tables/ledger.json: reviewed panic-site justifications (keys carry no line numbers).
tactics: dominated-by-call / callers-dominated / field-writers are re-verified on every run;
conditional = discharged by the named rule (which is checked on every run of that property);
assumption = stated assumption class; reviewed = argument given in `reason`, not mechanically re-verified."""
import json, os
E = []
def add(key, tactic, reason, **kw):
    d = {"key": key, "tactic": tactic, "reason": reason}
    d.update(kw)
    E.append(d)

A1 = "A1: the sum of two in-memory sizes/offsets (a span's offset + length) does not overflow usize"
CUR = "lace::lexer::cursor::Cursor"
BUMP = r"lexer::cursor::Cursor::<'sess>::bump$"
LX = "lexer::<impl lexer::cursor::Cursor<'_>>::"

# ---------------------------------------------------------------- assembler (C05)
add("air::AsmLine::bit_offs|panic:panic|panic!(Tried to offset unfilled label)", "conditional",
    "emit runs only after a successful backpatch on every path (C07.R1), and backpatch fills every Label-carrying variant (C05.R2a)", on="C05.R2a,C07.R1")
add("debugger::breakpoint::Breakpoints::insert|index|insert on &mut Vec<debugger::breakpoint::Breakpoint> with index, breakpoint", "conditional",
    "the index is len or the position of an existing element (C11.R2 index-shape)", on="C11.R2")
add("error::parse_generic_unexpected|overflow:Add|Add(offs(&found.span), len(&found.span))", "assumption", A1)
add("error::parse_generic_unexpected|index|index on &str with adt:core::ops::range::Range:Range{offs(&found.span), (offs(&…", "conditional",
    "the slice is a token span: spans start/end on cursor positions, i.e. char boundaries inside the source (C05.R3)", on="C05.R3")
add("features::with_features::{closure#0}|refcell|borrow(&*features)", "reviewed",
    "single-threaded key; the only borrow_mut is inside features::init and is released before init returns; the callbacks handed to with_features are field reads that cannot re-enter (C18.R4 closes the set of callers)")
add("features::with_features::{closure#0}::{closure#0}|panic:panic|panic!(tried to access features state before initialization)", "conditional",
    "every entry point of the binary initialises the flag before anything can read it (C07.R2)", on="C07.R2")
add(LX + "advance_token|unwrap|unwrap(from_str(&*deref(&to_string(&c))))", "conditional",
    "c satisfied is_reg_num ('0'..='7') and Register::from_str accepts exactly \"0\"..\"7\" (C05.R2c)", on="C05.R2c")
add(LX + "advance_token|overflow:Sub|Sub(abs_pos(&*self), 1)", "dominated-by-call",
    "a character was consumed (bump() returned Some), so abs_pos() >= 1", callee=BUMP, outcome="Some")
for f in ("dir", "str"):
    add(LX + "%s|overflow:Sub|Sub(abs_pos(&*self), 1)" % f, "callers-dominated",
        "only called from advance_token after bump() returned Some, so abs_pos() >= 1", root=r"Cursor<'_>>::advance_token$", callee=BUMP, outcome="Some")
FW = dict(adt=CUR, field="len_remaining", writers=["lexer::cursor::Cursor::<'sess>::new", "lexer::cursor::Cursor::<'sess>::reset_pos"])
for f in ("dec", "hex"):
    add(LX + "%s|overflow:Sub|Sub(start, prefix)" % f, "field-writers",
        "start = abs_pos() and prefix = pos_in_token() read back to back: start - prefix = orig_size - len_remaining >= 0 by the cursor invariant", **FW)
add(LX + "ident|overflow:Sub|Sub(abs_pos(&*self), pos_in_token(&*self))", "field-writers",
    "abs_pos() = (orig_size - len_remaining) + pos_in_token(), so the difference is orig_size - len_remaining >= 0 by the cursor invariant", **FW)
add("lexer::cursor::Cursor::<'sess>::abs_pos|overflow:Sub|Sub(*self.orig_size, *self.len_remaining)", "field-writers",
    "len_remaining is only ever src.len() (= orig_size, in new) or chars.as_str().len() (<= src.len(), in reset_pos)", **FW)
add("lexer::cursor::Cursor::<'sess>::abs_pos|overflow:Add|Add((*self.orig_size - *self.len_remaining), pos_in_token(&*self))", "field-writers",
    "(orig_size - len_remaining) + (len_remaining - rest) = orig_size - rest <= orig_size", **FW)
add("lexer::cursor::Cursor::<'sess>::pos_in_token|overflow:Sub|Sub(*self.len_remaining, len(&*as_str(&*self.chars)))", "field-writers",
    "len_remaining is a snapshot of chars.as_str().len() and the Chars iterator only ever advances (its remaining length only shrinks)", **FW)
add("lexer::cursor::Cursor::<'sess>::get_range|index|index on &str with range", "conditional",
    "every caller passes cursor positions of the current token (C05.R3 classifies each call site's bounds)", on="C05.R3")
for f in ("expect", "expect_where"):
    add("parser::AsmParser::%s|overflow:Add|Add(offs(&tok.span), len(&tok.span))" % f, "assumption", A1)
add("parser::AsmParser::expect_lit|panic:unreachable|unreachable!(internal error: entered unreachable code: Found non-literal )", "conditional",
    "expect_where returns Ok(tok) only when the closure accepted tok.kind, and the closure accepts exactly the kinds the match handles (C05.R2d)", on="C05.R2d")
add("parser::AsmParser::expect_reg|panic:unreachable|unreachable!(internal error: entered unreachable code: Found non-reg afte)", "conditional",
    "expect_where returns Ok(tok) only when the closure accepted tok.kind, and the closure accepts exactly the kinds the match handles (C05.R2d)", on="C05.R2d")
add("parser::AsmParser::get_span|index|index on &str with adt:core::ops::range::Range:Range{offs(&span), end(&span)}", "conditional",
    "the slice is a token span (C05.R3)", on="C05.R3")
add("parser::AsmParser::parse|panic:assert|assert!(assertion failed: dir == DirKind::Orig)", "conditional",
    "preprocess consumes every directive except .orig, so only Dir(Orig) reaches the parser (C05.R2b)", on="C05.R2b")
add("parser::AsmParser::parse|panic:unreachable|unreachable!(internal error: entered unreachable code: Found whitespace/c)", "conditional",
    "preprocess never pushes Whitespace, Comment or Eof tokens (C05.R2b)", on="C05.R2b")
add("parser::preprocess|overflow:Sub|Sub(len(&*str_raw), 1)", "dominated-by-call",
    "str_raw is the text of a Lit(Str) token: Cursor::str only returns it for an opening and a closing '\"' (two distinct ASCII bytes), so len >= 2",
    callee=r"lexer::cursor::Cursor::<'sess>::get_range$", outcome="any")
add("parser::preprocess|index|index on &str with adt:core::ops::range::Range:Range{1, (len(&*str_raw) - 1)}", "dominated-by-call",
    "both quotes are one-byte ASCII characters, so 1 and len-1 are char boundaries and 1 <= len-1",
    callee=r"lexer::cursor::Cursor::<'sess>::get_range$", outcome="any")
add("symbol::Span::end|overflow:Add|Add(*self.offs.0, *self.len)", "assumption", A1)
add("symbol::Span::join|overflow:Sub|Sub(end, offs)", "reviewed",
    "end = max(e1, e2) >= e1 = offs1 + len1 >= offs1 >= min(offs1, offs2) = offs (shape of join checked by C17.R4)")

json.dump({"entries": E}, open(os.path.join(os.path.dirname(os.path.dirname(os.path.abspath(__file__))), "tables", "ledger.json"), "w"), indent=1)
print(len(E), "ledger entries")
