#!/usr/bin/env python3
"""Source of tables/ledger.json: reviewed panic-site justifications (keys carry no line numbers).
tactics: dominated-by-call / callers-dominated / field-writers are re-verified on every run;
conditional = discharged by the named rule (which is checked on every run of that property);
assumption = stated assumption class; reviewed = argument given in `reason`, not mechanically re-verified."""
import json, os
E = []
def add(key, tactic, reason, **kw):
    d = {"key": key, "tactic": tactic, "reason": reason}
    d.update(kw)
    E.append(d)

STR_TOKEN = [["lace::lexer::TokenKind", "Lit"], ["lace::lexer::LiteralKind", "Str"]]
A1 = "A1: the sum of two in-memory sizes/offsets (a span's offset + length) does not overflow usize"
CUR = "lace::lexer::cursor::Cursor"
BUMP = r"lexer::cursor::Cursor::<'sess>::bump$"
LX = "lexer::<impl lexer::cursor::Cursor<'_>>::"

# ---------------------------------------------------------------- assembler (C05)
add("air::AsmLine::bit_offs|panic:panic|panic!(Tried to offset unfilled label)", "conditional",
    "emit runs only after a successful backpatch on every path (C07.R1), and backpatch fills every Label-carrying variant (C05.R2a)", on="C05.R2a,C07.R1")
add("debugger::breakpoint::Breakpoints::insert|index|insert on &mut Vec<debugger::breakpoint::Breakpoint> with index, breakpoint", "conditional",
    "the index is len or the position of an existing element (C11.R2 index-shape)", on="C11.R2")
add("error::parse_generic_unexpected|overflow:Add|Add(offs(&found.span), len(&found.span))", "assumption", A1)
add("error::parse_generic_unexpected|index|index on &str with adt:core::ops::range::Range:Range{offs(&found.span), (offs(&…", "conditional",
    "the slice is a token span: spans start/end on cursor positions, i.e. char boundaries inside the source (C05.R3)", on="C05.R3")
add("features::with_features::{closure#0}|refcell|borrow(&*features)", "reviewed",
    "single-threaded key; the only borrow_mut is inside features::init and is released before init returns; the callbacks handed to with_features are field reads that cannot re-enter (C18.R4 closes the set of callers)")
add("features::with_features::{closure#0}::{closure#0}|panic:panic|panic!(tried to access features state before initialization)", "conditional",
    "every entry point of the binary initialises the flag before anything can read it (C07.R2)", on="C07.R2")
add(LX + "advance_token|unwrap|unwrap(from_str(&*deref(&to_string(&c))))", "conditional",
    "c satisfied is_reg_num ('0'..='7') and Register::from_str accepts exactly \"0\"..\"7\" (C05.R2c)", on="C05.R2c")
add(LX + "advance_token|overflow:Sub|Sub(abs_pos(&*self), 1)", "dominated-by-call",
    "a character was consumed (bump() returned Some), so abs_pos() >= 1", callee=BUMP, outcome="Some")
for f in ("dir", "str"):
    add(LX + "%s|overflow:Sub|Sub(abs_pos(&*self), 1)" % f, "callers-dominated",
        "only called from advance_token after bump() returned Some, so abs_pos() >= 1", root=r"Cursor<'_>>::advance_token$", callee=BUMP, outcome="Some")
FW = dict(adt=CUR, field="len_remaining", writers=["lexer::cursor::Cursor::<'sess>::new", "lexer::cursor::Cursor::<'sess>::reset_pos"])
for f in ("dec", "hex"):
    add(LX + "%s|overflow:Sub|Sub(start, prefix)" % f, "field-writers",
        "start = abs_pos() and prefix = pos_in_token() read back to back: start - prefix = orig_size - len_remaining >= 0 by the cursor invariant", **FW)
add(LX + "ident|overflow:Sub|Sub(abs_pos(&*self), pos_in_token(&*self))", "field-writers",
    "abs_pos() = (orig_size - len_remaining) + pos_in_token(), so the difference is orig_size - len_remaining >= 0 by the cursor invariant", **FW)
# the same position computed from what is left of the text (a form the cursor may take after a clean-up; no such site on the pinned tree)
add("lexer::cursor::Cursor::<'sess>::abs_pos|overflow:Sub|Sub(*self.orig_size, len(&*as_str(&*self.chars)))", "field-writers",
    "orig_size is only ever src.len() (in new), where chars = src.chars(); Chars::as_str() is a suffix of that very text, so its length is at most orig_size",
    adt=CUR, field="orig_size", writers=["lexer::cursor::Cursor::<'sess>::new"])
add("lexer::cursor::Cursor::<'sess>::abs_pos|overflow:Sub|Sub(*self.orig_size, *self.len_remaining)", "field-writers",
    "len_remaining is only ever src.len() (= orig_size, in new) or chars.as_str().len() (<= src.len(), in reset_pos)", **FW)
add("lexer::cursor::Cursor::<'sess>::abs_pos|overflow:Add|Add((*self.orig_size - *self.len_remaining), pos_in_token(&*self))", "field-writers",
    "(orig_size - len_remaining) + (len_remaining - rest) = orig_size - rest <= orig_size", **FW)
add("lexer::cursor::Cursor::<'sess>::pos_in_token|overflow:Sub|Sub(*self.len_remaining, len(&*as_str(&*self.chars)))", "field-writers",
    "len_remaining is a snapshot of chars.as_str().len() and the Chars iterator only ever advances (its remaining length only shrinks)", **FW)
add("lexer::cursor::Cursor::<'sess>::get_range|index|index on &str with range", "conditional",
    "every caller passes cursor positions of the current token (C05.R3 classifies each call site's bounds)", on="C05.R3")
for f in ("expect", "expect_where"):
    add("parser::AsmParser::%s|overflow:Add|Add(offs(&tok.span), len(&tok.span))" % f, "assumption", A1)
add("parser::AsmParser::expect_lit|panic:unreachable|unreachable!(internal error: entered unreachable code: Found non-literal )", "conditional",
    "expect_where returns Ok(tok) only when the closure accepted tok.kind, and the closure accepts exactly the kinds the match handles (C05.R2d)", on="C05.R2d")
add("parser::AsmParser::expect_reg|panic:unreachable|unreachable!(internal error: entered unreachable code: Found non-reg afte)", "conditional",
    "expect_where returns Ok(tok) only when the closure accepted tok.kind, and the closure accepts exactly the kinds the match handles (C05.R2d)", on="C05.R2d")
add("parser::AsmParser::get_span|index|index on &str with adt:core::ops::range::Range:Range{offs(&span), end(&span)}", "conditional",
    "the slice is a token span (C05.R3)", on="C05.R3")
add("parser::AsmParser::parse|panic:assert|assert!(assertion failed: dir == DirKind::Orig)", "conditional",
    "preprocess consumes every directive except .orig, so only Dir(Orig) reaches the parser (C05.R2b)", on="C05.R2b")
add("parser::AsmParser::parse|panic:unreachable|unreachable!(internal error: entered unreachable code: Found whitespace/c)", "conditional",
    "preprocess never pushes Whitespace, Comment or Eof tokens (C05.R2b)", on="C05.R2b")
add("parser::preprocess|overflow:Sub|Sub(len(&*str_raw), 1)", "dominated-by-call",
    "str_raw is the text of a Lit(Str) token: Cursor::str only returns it for an opening and a closing '\"' (two distinct ASCII bytes), so len >= 2",
    callee=r"lexer::cursor::Cursor::<'sess>::get_range$", outcome="any", variants=STR_TOKEN)
add("parser::preprocess|index|index on &str with adt:core::ops::range::Range:Range{1, (len(&*str_raw) - 1)}", "dominated-by-call",
    "both quotes are one-byte ASCII characters, so 1 and len-1 are char boundaries and 1 <= len-1",
    callee=r"lexer::cursor::Cursor::<'sess>::get_range$", outcome="any", variants=STR_TOKEN)
add("symbol::Span::end|overflow:Add|Add(*self.offs.0, *self.len)", "assumption", A1)
add("symbol::Span::join|overflow:Sub|Sub(end, offs)", "reviewed",
    "end = max(e1, e2) >= e1 = offs1 + len1 >= offs1 >= min(offs1, offs2) = offs (shape of join checked by C17.R4)")

# ---------------------------------------------------------------- debugger command language (C14)
DC = "debugger::command::"
ARGS = "lace::debugger::command::parse::Arguments"
A2 = "A2: reading standard input does not fail with an I/O error other than end of file"
A3 = "A3: standard input carries valid UTF-8 (the property quantifies over strings)"
FWA = dict(adt=ARGS, field="cursor", writers=["<debugger::command::parse::Arguments<'a> as core::convert::From<&'a str>>::from",
                                              DC + "parse::Arguments::<'a>::next_token_str", DC + "parse::Arguments::<'a>::get_rest"])
add("<" + DC + "parse::PCOffset as " + DC + "parse::TryParse<'a>>::try_parse|index|index on &str with adt:core::ops::range::RangeFrom:RangeFrom{len_utf8(0x5e)}",
    "dominated-by-call", "the first character was just tested to be '^' (one byte), so 1 is a char boundary <= len",
    callee=r"core::option::Option::<T>::is_none_or$", outcome="false")
add("<" + DC + "parse::label::ByteCounted<'_> as core::iter::traits::iterator::Iterator>::next|overflow:Add|Add(*self.len, len_utf8(ch))", "reviewed",
    "len sums len_utf8 of characters taken from one string, so it is at most that string's length")
AR = "<" + DC + "reader::argument::Argument as " + DC + "reader::Read>::read|"
FWR = dict(adt="lace::debugger::command::reader::argument::Argument", field="cursor",
           writers=[DC + "reader::argument::Argument::from", "<" + DC + "reader::argument::Argument as " + DC + "reader::Read>::read"])
add(AR + "index|index on &String with adt:core::ops::range::RangeFrom:RangeFrom{*self.cursor}", "field-writers",
    "cursor < len is tested just above (EOF check); the cursor only ever advances by len_utf8 of the characters read plus one byte for the "
    "ASCII delimiter, so it is a char boundary", **FWR)
add(AR + "overflow:Add|Add(*self.cursor, len_utf8(ch))", "field-writers", "bounded by buffer.len()", **FWR)
add(AR + "overflow:Add|Add(*self.cursor, 1)", "field-writers", "cursor <= buffer.len() here, so the sum is at most len + 1", **FWR)
add(AR + "unwrap|expect(get(&*deref(&*self.buffer), adt:core::ops::range::Range:Range{start, end}))", "field-writers",
    "start is the old cursor (a boundary), end = start + bytes of the characters walked over (a boundary <= len)", **FWR)
add(DC + "Command::<'a>::parse_arguments|panic:debug_assert|debug_assert!(no more arguments should exist)", "dominated-by-call",
    "get_rest moved the cursor to the end of the buffer, so expect_end finds nothing", callee=r"parse::Arguments::<'a>::get_rest$", outcome="any")
add(DC + "Command::<'a>::parse_arguments|panic:debug_assert|debug_assert!(no more arguments should exist)#2", "dominated-by-call",
    "get_rest moved the cursor to the end of the buffer, so expect_end finds nothing", callee=r"parse::Arguments::<'a>::get_rest$", outcome="any")
add(DC + "Command::<'a>::parse_arguments|overflow:Add|Add(arg_count(&*iter), 1)", "reviewed",
    "arg_count counts argument requests of one command; next_argument_str is never called in a loop (see its own entry), so the count is at most 4")
add(DC + "parse::Arguments::<'a>::next_argument_str|overflow:Add|Add(*self.arg_count, 1)", "not-in-loop",
    "u8 counter of argument requests per command: bounded by the number of call sites")
add(DC + "parse::Arguments::<'a>::get_rest|index|index on &str with adt:core::ops::range::RangeFrom:RangeFrom{start}", "field-writers",
    "start is the cursor: 0, a token end (boundary) or buffer.len()", **FWA)
add(DC + "parse::Arguments::<'a>::next_token_str|index|index on &str with adt:core::ops::range::RangeFrom:RangeFrom{*self.cursor}", "field-writers",
    "the cursor is 0, a token end computed from len_utf8 sums, or buffer.len(): a char boundary <= len", **FWA)
add(DC + "parse::Arguments::<'a>::next_token_str|panic:debug_assert|debug_assert!(semicolons/newlines should have been handled already)", "conditional",
    "every reader splits on ';' and newline and never hands them on (C14.R5)", on="C14.R5")
for k in ("Add(start, len_utf8(ch))", "Add(length, len_utf8(ch))", "Add(start, length)"):
    add(DC + "parse::Arguments::<'a>::next_token_str|overflow:Add|" + k, "reviewed", "sums of len_utf8 of characters of the buffer, bounded by buffer.len()")
add(DC + "parse::Arguments::<'a>::next_token_str|index|index on &str with adt:core::ops::range::Range:Range{start, end}", "reviewed",
    "start = cursor + bytes of skipped spaces, end = start + bytes of the token's characters: boundaries with start <= end <= len")
add(DC + "parse::integer::parse_integer|overflow:Mul|Mul(integer, (discr(prefix.radix) as i32))", "guarded-mul",
    "dominated by `integer > i32::MAX / radix` -> return, and integer >= 0")
add(DC + "parse::integer::parse_integer|panic:assert|assert!(should have looped until end of argument, or early-returned )", "reviewed",
    "the `for ch in chars.by_ref()` loop only falls through after next() returned None; Peekable<Chars> keeps returning None (Chars is fused)")
add(DC + "parse::integer::parse_integer|overflow:Mul|Mul(integer, (discr(sign) as i32))", "reviewed",
    "integer is built from non-negative digits with checked operations, so 0 <= integer <= i32::MAX and sign is +1/-1")
add(DC + "parse::label::<impl " + DC + "parse::TryParse<'a> for " + DC + "Label<'a>>::try_parse|index|split_at on &str with length", "reviewed",
    "length = ByteCounted::len = bytes of the leading characters consumed from this very string: a char boundary <= len")
add(DC + "parse::name::<impl " + DC + "parse::Arguments<'_>>::get_command_name|panic:assert|assert!(tried to parse command name from middle of buffer)", "reviewed",
    "its only caller, Command::try_from, builds a fresh Arguments (cursor 0) and asks for the name first")
add(DC + "parse::name::<impl " + DC + "parse::Arguments<'_>>::get_command_name|unwrap|expect(command_name)", "callers-dominated",
    "read_from skips lines that are empty after trim(), so there is a first token", root=r"command::Command::<'a>::read_from$",
    callee=r"core::str::<impl str>::is_empty$", outcome="false")
add(DC + "parse::name::<impl " + DC + "parse::Arguments<'_>>::name_matches_with_subcommand|bounds|index 0 < len PtrMetadata(commands)", "nonempty-const-arg",
    "the candidate list is one of two non-empty const arrays", param=2)
add(DC + "reader::stdin::Stdin::read_byte|unwrap|expect(read(&*self.stdin, (&buf as &mut [u8])))", "assumption", A2)
add(DC + "reader::stdin::Stdin::read_char|unwrap|expect(read_char_from_bytes(closure:lace::debugger::command::reader::stdin::Stdin::read_char::{cl\u2026)",
    "assumption", A3)
add(DC + "reader::stdin::read_char_from_bytes|index|index on &[u8; 4] with adt:core::ops::range::Range:Range{0, utf8_len}", "reviewed",
    "utf8_len is one of the constants 1..=4 returned by Utf8Position::len")
add(DC + "reader::stdin::read_char_from_bytes|bounds|index i < len 4", "reviewed", "i ranges over 1..utf8_len with utf8_len <= 4")

# ---------------------------------------------------------------- line editor (C20)
TT = "debugger::command::reader::terminal::"
TADT = "lace::debugger::command::reader::terminal::"
INV = "0 <= cursor <= chars().count() of the edited line: established by C20.R1 (only character-dimension values reach the cursor) and C20.R2 (guarded steps)"
ISNEXT = r"reader::terminal::Terminal::is_next$"
add(TT + "Terminal::get_current|unwrap|expect(get(&*deref(&*self.history.list), *self.history.index))", "dominated-by-call",
    "taken only when is_next() is false, i.e. history.index < history.list.len()", callee=ISNEXT, outcome="false")
add(TT + "Terminal::update_next|unwrap|expect(get(&*deref(&*self.history.list), *self.history.index))", "dominated-by-call",
    "taken only when is_next() is false, i.e. history.index < history.list.len()", callee=ISNEXT, outcome="false")
add(TT + "Terminal::print_prompt|unwrap|expect(get(&*deref(&*self.history.list), *self.history.index))", "dominated-by-call",
    "taken only when is_next() is false, i.e. history.index < history.list.len()", callee=ISNEXT, outcome="false")
add(TT + "Terminal::is_next|panic:debug_assert|debug_assert!(index went past history)", "field-writers",
    "history.index is len at construction/after a line, and only moves by -1 under index > 0 or +1 under index < len (both guards discharged in the same ledger)",
    adt=TADT + "TerminalHistory", field="index",
    writers=[TT + "Terminal::handle_key", TT + "Terminal::update_next", TT + "Terminal::read_line", TT + "TerminalHistory::new"])
FWT = dict(adt=TADT + "Terminal", field="cursor", writers=[TT + "Terminal::new", TT + "Terminal::get_next_command"])
add(TT + "Terminal::get_next_command|index|index on &String with adt:core::ops::range::RangeFrom:RangeFrom{*self.cursor}", "field-writers",
    "the splitter's byte cursor is 0 or the offset just behind a ';' found in the buffer (one-byte ASCII): a char boundary <= len", **FWT)
add(TT + "Terminal::get_next_command|overflow:Add|Add(index, 1)", "reviewed", "index is a byte offset inside the buffer")
add(TT + "Terminal::get_next_command|overflow:Add|Add(*self.cursor, (index + 1))", "reviewed", "both are byte offsets inside the buffer")
add(TT + "Terminal::get_next_command|index|index on &str with adt:core::ops::range::RangeTo:RangeTo{index}", "dominated-by-call",
    "index was returned by find(';') on this very slice: a char boundary inside it", callee=r"core::str::<impl str>::find$", outcome="Some")
for k in ("Add(*self.visible_cursor, 1)", "Add(*self.visible_cursor, 1)#2", "Add(*self.history.index, 1)"):
    add(TT + "Terminal::handle_key|overflow:Add|" + k, "assumption", "A1: counters bounded by the length of an in-memory line / history list do not overflow usize")
add(TT + "count_chars_bytes|overflow:Add|Add(char_count, 1)", "assumption", "A1: counters bounded by the length of an in-memory line / history list do not overflow usize")
add(TT + "find_word_back|overflow:Add|Add(cursor, 1)", "assumption", "A1: counters bounded by the length of an in-memory line / history list do not overflow usize")
for k in ("", "#2", "#3", "#4"):
    add(TT + "find_word_back|unwrap|unwrap(nth(&chars(&*string), cursor))" + k, "conditional",
        "cursor was decremented from a value <= count, so it indexes an existing character. " + INV, on="C20.R1,C20.R2")
add(TT + "insert_char_index|panic:assert|assert!(out-of-bounds char index)", "conditional", INV, on="C20.R1,C20.R2")
add(TT + "remove_char_index|panic:assert|assert!(out-of-bounds char index)", "conditional",
    "every call is dominated by cursor < count on the buffer being edited (C20.R2 removal guard)", on="C20.R2")
add(TT + "insert_char_index|index|insert on &mut String with byte_index, ch", "reviewed",
    "byte_index comes from count_chars_bytes: the char_indices offset of the char_index-th character, or string.len(): a char boundary <= len")
add(TT + "remove_char_index|index|remove on &mut String with byte_index", "dominated-by-call",
    "the assertion just before guarantees char_index < char_count, so byte_index is the offset of an existing character",
    callee=r"reader::terminal::count_chars_bytes$", outcome="any")

# ---------------------------------------------------------------- output layer behind the debugger's commands (C16.R4, C09)
OUT = "output::Output::"
TLSR = ("single-threaded thread-local; its only mutable borrows (set_minimal / the line tracker's write_str) are taken and released inside one closure "
        "that calls nothing else, so no shared borrow can meet a live mutable one")
add("output::LineTracker::is_line_start::{closure#0}|refcell|borrow(&*value)", "reviewed", TLSR)
add(OUT + "is_minimal::{closure#0}|refcell|borrow(&*value)", "reviewed", TLSR)
DBGONLY = ("only reached through dprint!/dprintln! and the debugger's own code, which build `Output::Debugger(..)` at the call; "
           "the Normal variant is only built for program output (C09.R4 closes the set of functions that print as the program)")
for f, msg in (("print_breakpoint_table", "debug_assert!(`Output::print_breakpoint_table()` called on `Output::Normal)"),
               ("print_category", "debug_assert!(`Output::print_category()` called on `Output::Normal`)"),
               ("reset_style", "debug_assert!(`Output::reset_style()` called on `Output::Normal`)")):
    add(OUT + f + "|panic:debug_assert|" + msg, "reviewed", DBGONLY)
ISMIN = r"output::Output::is_minimal$"
add(OUT + "print_breakpoint_table|panic:debug_assert|debug_assert!(`Output::print_breakpoint_table()` should not be called if `)", "callers-dominated",
    "the only caller (the `break list` arm) prints the table on the false side of Output::is_minimal()", root=r"debugger::Debugger::run_command$", callee=ISMIN, outcome="false")
add(OUT + "print_char_display|panic:debug_assert|debug_assert!(`Output::print_display()` should not be called if `--minimal)", "callers-dominated",
    "its only caller print_integer_inner reaches it on the false side of Output::is_minimal()", root=r"output::Output::print_integer_inner$", callee=ISMIN, outcome="false")
add(OUT + "print_breakpoint_table|rangefrom|next() on &mut ops::range::RangeFrom<usize>", "reviewed",
    "`for i in 0..` over the rows of the breakpoint list: it ends at the first row the callback has no breakpoint for, i.e. after at most 65,536 steps")
add(OUT + "print_breakpoint_table::{closure#1}|overflow:Add|Add(len, 1)", "assumption", A1)
WIDTHS = "the cell printer is only called with the table's column widths, constants of at least 9 (` 0x1234 `, 14 and 28 characters)"
add(OUT + "print_breakpoint_table::{closure#1}|overflow:Sub|Sub(width, 3)", "reviewed", WIDTHS)
add(OUT + "print_breakpoint_table::{closure#1}|overflow:Sub|Sub(width, 1)", "reviewed", WIDTHS)
FMTW = ("fmt::Write::write_fmt over lace's own writers, whose write_str stores Ok on every path (their inner expects are discharged as infallible); "
        "an Err could only come from a Display impl, and the values printed are integers, chars, strs and lace's own Colored/Decolored wrappers, which forward the writer's answer")
add(OUT + "print_fmt|unwrap|expect(write_fmt(&adt:lace::output::NormalWriter:NormalWriter{minimal}, args))", "reviewed", FMTW)
add(OUT + "print_fmt|unwrap|expect(write_fmt(&adt:lace::output::DebuggerWriter:DebuggerWriter{minimal, *category}, args))", "reviewed", FMTW)

RSN = ("the lookup is given a breakpoint address minus the origin; a breakpoint address is a statement index (at most 65534: the parser refuses longer programs, C05.R5) "
       "plus the origin, or a user-space address below 0xFE00 (C13.R1/R2), so the argument is at most 0xFFFE (checked on the binary: `.orig x0000`, `.blkw xFFFE`, `.break`)")
# the same addition inside a predicate closure of the lookup (`sym.iter().find(|(_, a)| **a == address + 1)`; no such site on the pinned tree)
add("debugger::resolve_symbol_name::{closure#0}::{closure#0}|overflow:Add|Add(**_1.0, 1)", "reviewed", RSN)
add("debugger::resolve_symbol_name::{closure#0}|overflow:Add|Add(*_1.0, 1)", "reviewed",
    "the lookup is given a breakpoint address minus the origin; a breakpoint address is a statement index (at most 65534: the parser refuses longer programs, C05.R5) "
    "plus the origin, or a user-space address below 0xFE00 (C13.R1/R2), so the argument is at most 0xFFFE (checked on the binary: `.orig x0000`, `.blkw xFFFE`, `.break`)")
add(TT + "Terminal::print_prompt::{closure#5}|overflow:Add|Add(len(&*const debugger::command::reader::PROMPT), *_1.0)", "assumption",
    "A1: the prompt's length plus the cursor, which is at most the number of characters of an in-memory line, does not overflow usize")

# ---------------------------------------------------------------- VM (C02 / C03)
RT = "runtime::"
A4 = "A4: writing to / flushing standard output does not fail (a closed pipe is an environment fault, not an instruction's semantics)"
for f in ("push_val", "pop_val"):
    add(RT + "RunState::%s|panic:debug_assert|debug_assert!(caller should have ensured stack feature is enabled)" % f, "callers-dominated",
        "only called from the opcode-0xD handler below its feature test", root=r"runtime::RunState::stack$", callee=r"^lace::features::stack$", outcome="true")
add(RT + "RunState::reg|panic:debug_assert|debug_assert!()", "conditional", "every call site passes an index proven < 8 (C02.R6)", on="C02.R6")
add(RT + "RunState::reg_mut|panic:debug_assert|debug_assert!()", "conditional", "every call site passes an index proven < 8 (C02.R6)", on="C02.R6")
add(RT + "RunState::rti|panic:todo|todo!(not yet implemented: Please open an issue and I'll get RTI i)", "reviewed",
    "RTI is documented as unimplemented and is outside the property's claim; eval refuses it (C15.R1)")
add(RT + "RunState::s_ext|panic:debug_assert|debug_assert!(assertion failed: bits > 0 && bits < 16)", "conditional",
    "every call site passes one of the constant widths 5, 6, 9, 10, 11 (they are part of the decode signatures, C02.R2)", on="C02.R2")
for k in ("", "#2", "#3", "#4"):
    add(RT + "RunState::trap|unwrap|unwrap(flush(&stdout()))" + k, "assumption", A4)
add(RT + "read_byte_stdin|panic:panic|panic!()", "assumption", "A2: reading standard input does not fail with an I/O error other than end of file")

# ---------------------------------------------------------------- object-file loader (C06)
add("bin::run|unwrap|unwrap(to_str(&*ext))", "assumption", "A5: the file name given on the command line has a UTF-8 extension (the property quantifies over file contents)")
add("bin::run|unwrap|unwrap(metadata(&file))", "assumption", "A6: fstat on a file that was just opened succeeds")
for k in ("index 0 < len PtrMetadata(word)", "index 1 < len PtrMetadata(word)"):
    add("bin::run::{closure#0}|bounds|" + k, "conditional", "the closure only receives the 2-byte slices produced by chunks_exact(2) (C06.R1 checks the chunk size)", on="C06.R1")
add("runtime::RunEnvironment::from_raw|index|index on &[u16] with adt:core::ops::range::RangeFrom:RangeFrom{1}", "conditional",
    "dominated by the empty-image guard (len == 0 -> error exit), so 1 <= len (C03.R1)", on="C03.R1")
add("runtime::RunEnvironment::from_raw|index|index_mut on &mut [u16; 65536] with adt:core::ops::range::Range:Range{orig, (orig + len(&*raw))}", "conditional",
    "dominated by the size guard orig + (n + 1) <= 0x10000, so orig <= orig + n < 0x10000 (C03.R1)", on="C03.R1")
add("runtime::RunEnvironment::from_raw|index|clone_from_slice on &mut [u16] with &*raw", "reviewed",
    "destination mem[orig .. orig + n] and source raw[1..] both have n elements (the range is built from raw.len(), C03.R1 checks its form)")
add("runtime::RunEnvironment::from_raw|bounds|index (orig + len(&*raw)) < len 0x10000", "conditional",
    "dominated by the size guard orig + (n + 1) <= 0x10000 (C03.R1)", on="C03.R1")

# ---------------------------------------------------------------- debugger core (C16.R4)
DB = "debugger::"
add(DB + "Debugger::orig|panic:debug_assert_eq|debug_assert_eq!()", "conditional",
    "both values are the origin given to Debugger::new and neither field is ever written afterwards (C12.R1, C17.R5)", on="C12.R1,C17.R5")
add(DB + "Debugger::resolve_label|overflow:Add|Add(address, orig(&*self))", "conditional",
    "address = line - 1 < n and the loader guarantees orig + n + 1 <= 0x10000 (C03.R1)", on="C03.R1")
add(DB + "Debugger::run_command|panic:assert|assert!(`run_command` must only be called if `status == WaitForActio)", "conditional",
    "its only call site is the WaitForAction arm of the pausing code's status match (C10.R4 transition table)", on="C10.R4")
add(DB + "Debugger::run_command|overflow:Sub|Sub(count, 1)", "conditional", "count >= 1 at every construction site of Command::StepInto (C10.R3)", on="C10.R3")
add(DB + "Debugger::run_command::{closure#1}|overflow:Sub|Sub(address, orig(&**_1.0))", "conditional",
    "breakpoint addresses are origin + index (C11.R3) or were accepted by the user-space guard (C13.R1), so address >= origin", on="C11.R3,C13.R1")
add(DB + "asm::AsmSource::get_context_range|index|index on &str with adt:core::ops::range::RangeTo:RangeTo{stmt_start}", "conditional", "statement span start (C17.R3, C05.R3)", on="C17.R3")
add(DB + "asm::AsmSource::get_context_range|index|index on &str with adt:core::ops::range::RangeFrom:RangeFrom{stmt_end}", "conditional", "statement span end (C17.R3, C05.R3)", on="C17.R3")
add(DB + "asm::AsmSource::get_context_range|overflow:Sub|Sub(stmt_start, count_chars_in_lines(rev(chars(&*source_above))))", "reviewed",
    "the count is a number of characters of src[..stmt_start], which is at most its byte length stmt_start")
add(DB + "asm::AsmSource::get_context_range|overflow:Add|Add(stmt_end, count_chars_in_lines(chars(&*source_below)))", "assumption", A1)
for k in ("", "#2"):
    add(DB + "asm::AsmSource::get_context_range|overflow:Add|Add(line, *self.orig)" + k, "conditional", "line <= n and orig + n + 1 <= 0x10000 (C03.R1)", on="C03.R1")
    add(DB + "asm::AsmSource::get_context_range|overflow:Sub|Sub((line + *self.orig), 1)" + k, "conditional", "statement lines start at 1 (C01.R5)", on="C01.R5")
add(DB + "asm::AsmSource::get_single_line|index|index on &str with range", "conditional", "a statement span (C17.R3, C05.R3)", on="C17.R3")
add(DB + "asm::AsmSource::show_single_line|index|index on &str with range", "conditional", "a statement span (C17.R3, C05.R3)", on="C17.R3")
add(DB + "asm::count_chars_in_lines|overflow:Add|Add(line, 1)", "assumption", A1)
add(DB + "asm::count_chars_in_lines|overflow:Add|Add(count, 1)", "assumption", A1)
add(DB + "eval::eval_inner|panic:unreachable|unreachable!(internal error: entered unreachable code: tried to simulate )", "variant-built-only-in",
    "raw data words are only produced for data directives by the full parser; eval uses parse_simple", adt="lace::air::AirStmt", variant="RawWord",
    builders=["parser::AsmParser::parse_byte"], callers=["parser::AsmParser::parse"])
add(DB + "resolve_symbol_address::{closure#0}|checked-std:sub|sub(addr, 1)", "conditional", "symbol-table lines are >= 1: the line counter starts at 1 (C01.R5)", on="C01.R5")
add("runtime::RunEnvironment::run|panic:debug_assert|debug_assert!(halt should be caught if debugger is active)", "reviewed",
    "with the debugger attached control only falls through to this test after check_pc_bounds() == Equal (the other outcomes `continue`), and 0xFFFF is never in bounds")

json.dump({"entries": E}, open(os.path.join(os.path.dirname(os.path.dirname(os.path.abspath(__file__))), "tables", "ledger.json"), "w"), indent=1)
print(len(E), "ledger entries")
