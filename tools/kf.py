#!/usr/bin/env python3
"""tools/kf.py fixed <props> <commit> <key> <what>   |   tools/kf.py open <props> <key> <what>
Maintains known_findings.json (never written by a check at run time)."""
import json, sys, os
P = os.path.join(os.path.dirname(os.path.dirname(os.path.abspath(__file__))), "known_findings.json")
db = json.load(open(P))
mode = sys.argv[1]
if mode == "fixed":
    props, commit, key, what = sys.argv[2].split(","), sys.argv[3], sys.argv[4], sys.argv[5]
    e = {"key": key, "status": "fixed", "properties": props, "commit": commit, "what": what,
         "line": "fixed: property=%s %s %s" % (props[0], commit, what)}
else:
    props, key, what = sys.argv[2].split(","), sys.argv[3], sys.argv[4]
    e = {"key": key, "status": "open", "properties": props, "what": what,
         "demonstration": sys.argv[5] if len(sys.argv) > 5 else ""}
db["findings"] = [x for x in db["findings"] if x["key"] != key] + [e]
json.dump(db, open(P, "w"), indent=1)
print("recorded", e["key"])
