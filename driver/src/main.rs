//! lacefacts — a deliberately dumb fact extractor.
//!
//! Runs as RUSTC_WORKSPACE_WRAPPER: argv = [self, real-rustc, rustc args...].
//! After analysis it dumps, for the crate being compiled, every MIR body, ADT, and the
//! HIR initialisers of const/static items as JSON into $LACEFACTS_OUT/<crate>-<type>.json.
//! It decides nothing; all rules live in /verif/lacecheck (Python).
#![feature(rustc_private)]

extern crate rustc_abi;
extern crate rustc_ast;
extern crate rustc_driver;
extern crate rustc_hir;
extern crate rustc_interface;
extern crate rustc_middle;
extern crate rustc_session;
extern crate rustc_span;

use rustc_driver::Compilation;
use rustc_hir as hir;
use rustc_hir::def::DefKind;
use rustc_hir::def_id::{DefId, LocalDefId};
use rustc_interface::interface::Compiler;
use rustc_middle::mir;
use rustc_middle::ty::{self, Ty, TyCtxt};
use rustc_span::Span;
use std::fmt::Write as _;

mod json;
use json::J;

struct Cb;

impl rustc_driver::Callbacks for Cb {
    fn after_analysis<'tcx>(&mut self, _c: &Compiler, tcx: TyCtxt<'tcx>) -> Compilation {
        if let Ok(dir) = std::env::var("LACEFACTS_OUT") {
            dump(tcx, &dir);
        }
        Compilation::Continue
    }
}

fn main() {
    let mut args: Vec<String> = std::env::args().collect();
    // wrapper mode: drop argv[1] (path of the real rustc)
    if args.len() > 1 && (args[1].ends_with("rustc") || args[1].contains("/rustc")) {
        args.remove(1);
    }
    let mut cb = Cb;
    rustc_driver::run_compiler(&args, &mut cb);
}

struct Cx<'tcx> {
    tcx: TyCtxt<'tcx>,
    prefix: String,
}

fn dump<'tcx>(tcx: TyCtxt<'tcx>, dir: &str) {
    let crate_name = tcx.crate_name(rustc_hir::def_id::LOCAL_CRATE).to_string();
    let is_bin = tcx
        .crate_types()
        .iter()
        .any(|t| matches!(t, rustc_session::config::CrateType::Executable));
    let is_test = tcx.sess.opts.test;
    let prefix = if is_bin { "bin".to_string() } else { crate_name.clone() };
    let cx = Cx { tcx, prefix };

    let mut fns: Vec<(String, J)> = Vec::new();
    let mut seen = std::collections::HashMap::<String, usize>::new();
    let mut uniq = |s: String| -> String {
        let n = seen.entry(s.clone()).or_insert(0);
        *n += 1;
        if *n == 1 {
            s
        } else {
            format!("{}#{}", s, *n)
        }
    };

    for ldid in tcx.mir_keys(()).iter().copied() {
        let did = ldid.to_def_id();
        let kind = tcx.def_kind(did);
        let (body, bkind): (&mir::Body<'tcx>, &str) = match kind {
            DefKind::Fn | DefKind::AssocFn | DefKind::Closure => (tcx.optimized_mir(did), "fn"),
            DefKind::Const { .. }
            | DefKind::AssocConst { .. }
            | DefKind::Static { .. }
            | DefKind::AnonConst
            | DefKind::InlineConst => (tcx.mir_for_ctfe(did), "const"),
            DefKind::Ctor(..) => continue,
            _ => continue,
        };
        let name = uniq(cx.path(did));
        let mut obj = cx.body_json(body, did);
        obj.push(("bkind".into(), J::s(bkind)));
        obj.push(("defkind".into(), J::s(&format!("{:?}", kind))));
        cx.item_meta(ldid, kind, &mut obj);
        fns.push((name.clone(), J::Obj(obj)));
        // promoteds
        if matches!(kind, DefKind::Fn | DefKind::AssocFn | DefKind::Closure) {
            let proms = tcx.promoted_mir(did);
            for (i, pb) in proms.iter_enumerated() {
                let mut o = cx.body_json(pb, did);
                o.push(("bkind".into(), J::s("promoted")));
                o.push(("defkind".into(), J::s("Promoted")));
                o.push(("owner".into(), J::s(&name)));
                fns.push((format!("{}::promoted[{}]", name, i.index()), J::Obj(o)));
            }
        }
    }

    // ADTs and const HIR initialisers, impls
    let mut adts: Vec<(String, J)> = Vec::new();
    let mut consts: Vec<(String, J)> = Vec::new();
    let mut impls: Vec<J> = Vec::new();
    for id in tcx.hir_free_items() {
        let item = tcx.hir_item(id);
        let did = item.owner_id.to_def_id();
        match item.kind {
            hir::ItemKind::Struct(..) | hir::ItemKind::Enum(..) | hir::ItemKind::Union(..) => {
                adts.push((cx.path(did), cx.adt_json(did)));
            }
            hir::ItemKind::Const(_, _, _, rhs) => {
                if let hir::ConstItemRhs::Body(body_id) = rhs {
                    let body = tcx.hir_body(body_id);
                    let owner = item.owner_id.def_id;
                    consts.push((cx.path(did), cx.hir_expr(owner, body.value, 0)));
                }
            }
            hir::ItemKind::Static(_, _, _, body_id) => {
                let body = tcx.hir_body(body_id);
                let owner = item.owner_id.def_id;
                consts.push((cx.path(did), cx.hir_expr(owner, body.value, 0)));
            }
            hir::ItemKind::Impl(imp) => {
                let mut o: Vec<(String, J)> = Vec::new();
                o.push(("self_ty".into(), J::s(&cx.ty_str(tcx.type_of(did).instantiate_identity().skip_norm_wip()))));
                let tr = imp.of_trait.map(|t| {
                    t.trait_ref.trait_def_id().map(|d| cx.path(d)).unwrap_or_default()
                });
                o.push(("trait".into(), match tr { Some(t) => J::s(&t), None => J::Null }));
                o.push(("auto_derived".into(), J::Bool(tcx.is_automatically_derived(did))));
                o.push(("span".into(), J::s(&cx.span_str(item.span))));
                let mut items = Vec::new();
                for r in imp.items {
                    items.push(J::s(&cx.path(r.owner_id.to_def_id())));
                }
                o.push(("items".into(), J::Arr(items)));
                impls.push(J::Obj(o));
            }
            _ => {}
        }
    }
    // associated consts with bodies (e.g. OP_TABLE) — HIR initialiser too
    for id in tcx.hir_crate_items(()).impl_items() {
        let it = tcx.hir_impl_item(id);
        if let hir::ImplItemKind::Const(_, rhs) = it.kind {
            if let hir::ConstItemRhs::Body(body_id) = rhs {
                let body = tcx.hir_body(body_id);
                let owner = it.owner_id.def_id;
                consts.push((cx.path(it.owner_id.to_def_id()), cx.hir_expr(owner, body.value, 0)));
            }
        }
    }

    let mut root: Vec<(String, J)> = Vec::new();
    root.push(("crate".into(), J::s(&crate_name)));
    root.push(("prefix".into(), J::s(&cx.prefix)));
    root.push(("is_bin".into(), J::Bool(is_bin)));
    root.push(("is_test".into(), J::Bool(is_test)));
    root.push(("debug_assertions".into(), J::Bool(tcx.sess.opts.debug_assertions)));
    root.push(("overflow_checks".into(), J::Bool(tcx.sess.overflow_checks())));
    root.push(("rustc".into(), J::s(option_env!("CFG_VERSION").unwrap_or("nightly"))));
    root.push(("driver_version".into(), J::s("1")));
    root.push(("fns".into(), J::Obj(fns)));
    root.push(("adts".into(), J::Obj(adts)));
    root.push(("consts_hir".into(), J::Obj(consts)));
    root.push(("impls".into(), J::Arr(impls)));

    let mut out = String::new();
    J::Obj(root).write(&mut out);
    let fname = format!(
        "{}/{}-{}{}.json",
        dir,
        crate_name,
        if is_bin { "bin" } else { "lib" },
        if is_test { "-test" } else { "" }
    );
    std::fs::write(&fname, out).expect("write facts");
}

impl<'tcx> Cx<'tcx> {
    fn path(&self, did: DefId) -> String {
        let s = ty::print::with_no_visible_paths!(ty::print::with_no_trimmed_paths!(
            self.tcx.def_path_str(did)
        ));
        if did.is_local() {
            format!("{}::{}", self.prefix, s)
        } else {
            s
        }
    }

    fn path_args(&self, did: DefId, args: ty::GenericArgsRef<'tcx>) -> String {
        let s = ty::print::with_no_visible_paths!(ty::print::with_no_trimmed_paths!(
            self.tcx.def_path_str_with_args(did, args)
        ));
        if did.is_local() {
            format!("{}::{}", self.prefix, s)
        } else {
            s
        }
    }

    fn ty_str(&self, t: Ty<'tcx>) -> String {
        ty::print::with_no_visible_paths!(ty::print::with_no_trimmed_paths!(format!("{}", t)))
    }

    fn span_str(&self, sp: Span) -> String {
        let sm = self.tcx.sess.source_map();
        // use the call-site of the outermost expansion so that a macro use is located in user code
        let sp0 = if sp.from_expansion() { sp.source_callsite() } else { sp };
        let lo = sm.lookup_char_pos(sp0.lo());
        let hi = sm.lookup_char_pos(sp0.hi());
        let f = match &lo.file.name {
            rustc_span::FileName::Real(r) => r
                .local_path()
                .map(|p| p.to_string_lossy().to_string())
                .unwrap_or_else(|| format!("{:?}", lo.file.name)),
            other => format!("{:?}", other),
        };
        format!("{}:{}:{}-{}:{}", f, lo.line, lo.col.0 + 1, hi.line, hi.col.0 + 1)
    }

    /// names of the macros in the expansion backtrace, innermost first
    fn macros(&self, sp: Span) -> Vec<String> {
        let mut v = Vec::new();
        if sp.from_expansion() {
            for e in sp.macro_backtrace() {
                if let rustc_span::ExpnKind::Macro(_, name) = e.kind {
                    v.push(name.to_string());
                } else {
                    v.push(format!("{:?}", e.kind));
                }
            }
        }
        v
    }

    fn span_json(&self, sp: Span, o: &mut Vec<(String, J)>) {
        o.push(("sp".into(), J::s(&self.span_str(sp))));
        if sp.from_expansion() {
            let m = self.macros(sp);
            o.push(("mac".into(), J::Arr(m.iter().map(|s| J::s(s)).collect())));
        }
    }

    fn item_meta(&self, ldid: LocalDefId, kind: DefKind, o: &mut Vec<(String, J)>) {
        let tcx = self.tcx;
        let did = ldid.to_def_id();
        if matches!(kind, DefKind::Fn | DefKind::AssocFn) {
            o.push(("vis".into(), J::s(&format!("{:?}", tcx.visibility(did)))));
            let sig = tcx.fn_sig(did).instantiate_identity().skip_norm_wip().skip_binder();
            o.push((
                "inputs".into(),
                J::Arr(sig.inputs().iter().map(|t| J::s(&self.ty_str(*t))).collect()),
            ));
            o.push(("output".into(), J::s(&self.ty_str(sig.output()))));
        }
        if matches!(kind, DefKind::AssocFn | DefKind::AssocConst { .. }) {
            if let Some(impl_did) = tcx.impl_of_assoc(did) {
                o.push((
                    "impl_self".into(),
                    J::s(&self.ty_str(tcx.type_of(impl_did).instantiate_identity().skip_norm_wip())),
                ));
                if let Some(tr) = tcx.impl_opt_trait_ref(impl_did) {
                    o.push(("impl_trait".into(), J::s(&self.path(tr.skip_binder().def_id))));
                }
                o.push(("auto_derived".into(), J::Bool(tcx.is_automatically_derived(impl_did))));
            }
        }
        if matches!(kind, DefKind::Const { .. } | DefKind::AssocConst { .. } | DefKind::Static { .. }) {
            o.push((
                "const_ty".into(),
                J::s(&self.ty_str(tcx.type_of(did).instantiate_identity().skip_norm_wip())),
            ));
        }
        // parent (for closures: the creator)
        if matches!(kind, DefKind::Closure | DefKind::InlineConst | DefKind::AnonConst) {
            let p = tcx.local_parent(ldid);
            o.push(("parent".into(), J::s(&self.path(p.to_def_id()))));
        }
        // cfg(test) modules are not compiled in non-test mode, nothing to flag here
    }

    fn adt_json(&self, did: DefId) -> J {
        let tcx = self.tcx;
        let adt = tcx.adt_def(did);
        let mut o: Vec<(String, J)> = Vec::new();
        o.push((
            "kind".into(),
            J::s(if adt.is_enum() {
                "enum"
            } else if adt.is_union() {
                "union"
            } else {
                "struct"
            }),
        ));
        o.push(("vis".into(), J::s(&format!("{:?}", tcx.visibility(did)))));
        let mut vs = Vec::new();
        let discrs: Vec<(rustc_abi::VariantIdx, ty::util::Discr<'tcx>)> =
            if adt.is_enum() { adt.discriminants(tcx).collect() } else { Vec::new() };
        for (vi, v) in adt.variants().iter_enumerated() {
            let mut vo: Vec<(String, J)> = Vec::new();
            vo.push(("name".into(), J::s(v.name.as_str())));
            vo.push(("idx".into(), J::Int(vi.index() as i128)));
            if let Some((_, d)) = discrs.iter().find(|(i, _)| *i == vi) {
                // sign-correct for signed reprs
                let sz = d.ty.primitive_size(tcx);
                let val = if d.ty.is_signed() { sz.sign_extend(d.val) as i128 } else { d.val as i128 };
                vo.push(("discr".into(), J::Int(val)));
            }
            let mut fs = Vec::new();
            for f in v.fields.iter() {
                let mut fo: Vec<(String, J)> = Vec::new();
                fo.push(("name".into(), J::s(f.name.as_str())));
                fo.push((
                    "ty".into(),
                    J::s(&self.ty_str(tcx.type_of(f.did).instantiate_identity().skip_norm_wip())),
                ));
                fo.push(("vis".into(), J::s(&format!("{:?}", f.vis))));
                fs.push(J::Obj(fo));
            }
            vo.push(("fields".into(), J::Arr(fs)));
            vs.push(J::Obj(vo));
        }
        o.push(("variants".into(), J::Arr(vs)));
        o.push(("span".into(), J::s(&self.span_str(tcx.def_span(did)))));
        J::Obj(o)
    }

    // ---------------------------------------------------------------- HIR const initialisers
    fn hir_expr(&self, owner: LocalDefId, e: &hir::Expr<'tcx>, depth: usize) -> J {
        if depth > 40 {
            return J::s("<deep>");
        }
        let tcx = self.tcx;
        match e.kind {
            hir::ExprKind::Array(es) => J::Arr(es.iter().map(|x| self.hir_expr(owner, x, depth + 1)).collect()),
            hir::ExprKind::Tup(es) => {
                J::Obj(vec![("tuple".into(), J::Arr(es.iter().map(|x| self.hir_expr(owner, x, depth + 1)).collect()))])
            }
            hir::ExprKind::AddrOf(_, _, inner) => self.hir_expr(owner, inner, depth + 1),
            hir::ExprKind::DropTemps(inner) => self.hir_expr(owner, inner, depth + 1),
            hir::ExprKind::Cast(inner, _) => self.hir_expr(owner, inner, depth + 1),
            hir::ExprKind::Block(b, _) => {
                if let Some(x) = b.expr {
                    self.hir_expr(owner, x, depth + 1)
                } else {
                    J::s("<block>")
                }
            }
            hir::ExprKind::Lit(l) => match l.node {
                rustc_ast::LitKind::Str(s, _) => J::s(s.as_str()),
                rustc_ast::LitKind::Int(n, _) => J::Int(n.get() as i128),
                rustc_ast::LitKind::Bool(b) => J::Bool(b),
                rustc_ast::LitKind::Char(c) => J::Obj(vec![("char".into(), J::s(&c.to_string()))]),
                _ => J::Obj(vec![("lit".into(), J::s(&format!("{:?}", l.node)))]),
            },
            hir::ExprKind::Path(ref qp) => {
                let res = tcx.typeck(owner).qpath_res(qp, e.hir_id);
                match res.opt_def_id() {
                    Some(d) => J::Obj(vec![("path".into(), J::s(&self.path(d)))]),
                    None => J::Obj(vec![("path".into(), J::s(&format!("{:?}", res)))]),
                }
            }
            hir::ExprKind::Struct(qp, fields, _) => {
                let res = tcx.typeck(owner).qpath_res(qp, e.hir_id);
                let name = res.opt_def_id().map(|d| self.path(d)).unwrap_or_else(|| format!("{:?}", res));
                let mut fo: Vec<(String, J)> = Vec::new();
                for f in fields {
                    fo.push((f.ident.name.to_string(), self.hir_expr(owner, f.expr, depth + 1)));
                }
                J::Obj(vec![("struct".into(), J::s(&name)), ("fields".into(), J::Obj(fo))])
            }
            hir::ExprKind::Call(f, args) => J::Obj(vec![
                ("call".into(), self.hir_expr(owner, f, depth + 1)),
                ("args".into(), J::Arr(args.iter().map(|x| self.hir_expr(owner, x, depth + 1)).collect())),
            ]),
            _ => J::Obj(vec![("other".into(), J::s(&self.span_str(e.span)))]),
        }
    }

    // ---------------------------------------------------------------- MIR
    fn body_json(&self, body: &mir::Body<'tcx>, owner: DefId) -> Vec<(String, J)> {
        let tcx = self.tcx;
        let mut o: Vec<(String, J)> = Vec::new();
        o.push(("span".into(), J::s(&self.span_str(body.span))));
        o.push(("arg_count".into(), J::Int(body.arg_count as i128)));
        // locals
        let mut names: Vec<Option<String>> = vec![None; body.local_decls.len()];
        let mut dbg = Vec::new();
        for vdi in &body.var_debug_info {
            let mut d: Vec<(String, J)> = Vec::new();
            d.push(("name".into(), J::s(vdi.name.as_str())));
            match &vdi.value {
                mir::VarDebugInfoContents::Place(p) => {
                    if p.projection.is_empty() {
                        names[p.local.index()] = Some(vdi.name.to_string());
                    }
                    d.push(("place".into(), self.place(body, *p)));
                }
                mir::VarDebugInfoContents::Const(c) => {
                    d.push(("const".into(), self.constant(c, owner)));
                }
            }
            dbg.push(J::Obj(d));
        }
        o.push(("debug".into(), J::Arr(dbg)));
        let mut locals = Vec::new();
        for (i, ld) in body.local_decls.iter_enumerated() {
            let mut l: Vec<(String, J)> = Vec::new();
            l.push(("ty".into(), J::s(&self.ty_str(ld.ty))));
            if let Some(n) = &names[i.index()] {
                l.push(("name".into(), J::s(n)));
            }
            if ld.mutability.is_mut() {
                l.push(("mut".into(), J::Bool(true)));
            }
            locals.push(J::Obj(l));
        }
        o.push(("locals".into(), J::Arr(locals)));
        // blocks
        let mut blocks = Vec::new();
        for (_bb, data) in body.basic_blocks.iter_enumerated() {
            let mut b: Vec<(String, J)> = Vec::new();
            let mut stmts = Vec::new();
            for st in &data.statements {
                match &st.kind {
                    mir::StatementKind::Assign(bx) => {
                        let (p, rv) = &**bx;
                        let mut so: Vec<(String, J)> = Vec::new();
                        so.push(("k".into(), J::s("assign")));
                        so.push(("p".into(), self.place(body, *p)));
                        so.push(("r".into(), self.rvalue(body, rv, owner)));
                        self.span_json(st.source_info.span, &mut so);
                        stmts.push(J::Obj(so));
                    }
                    mir::StatementKind::SetDiscriminant { place, variant_index } => {
                        let mut so: Vec<(String, J)> = Vec::new();
                        so.push(("k".into(), J::s("setdiscr")));
                        so.push(("p".into(), self.place(body, **place)));
                        so.push(("variant".into(), J::Int(variant_index.index() as i128)));
                        self.span_json(st.source_info.span, &mut so);
                        stmts.push(J::Obj(so));
                    }
                    mir::StatementKind::Intrinsic(i) => {
                        let mut so: Vec<(String, J)> = Vec::new();
                        so.push(("k".into(), J::s("intrinsic")));
                        so.push(("dbg".into(), J::s(&format!("{:?}", i))));
                        self.span_json(st.source_info.span, &mut so);
                        stmts.push(J::Obj(so));
                    }
                    _ => {}
                }
            }
            b.push(("stmts".into(), J::Arr(stmts)));
            if data.is_cleanup {
                b.push(("cleanup".into(), J::Bool(true)));
            }
            let term = data.terminator();
            b.push(("term".into(), self.terminator(body, term, owner)));
            blocks.push(J::Obj(b));
        }
        o.push(("blocks".into(), J::Arr(blocks)));
        let _ = tcx;
        o
    }

    fn place(&self, body: &mir::Body<'tcx>, p: mir::Place<'tcx>) -> J {
        let tcx = self.tcx;
        let mut o: Vec<(String, J)> = Vec::new();
        o.push(("l".into(), J::Int(p.local.index() as i128)));
        if !p.projection.is_empty() {
            let mut pr = Vec::new();
            for (base, elem) in p.iter_projections() {
                let bty = base.ty(body, tcx);
                match elem {
                    mir::ProjectionElem::Deref => pr.push(J::s("*")),
                    mir::ProjectionElem::Field(f, fty) => {
                        let mut fo: Vec<(String, J)> = Vec::new();
                        fo.push(("f".into(), J::Int(f.index() as i128)));
                        // field name if ADT
                        if let ty::Adt(adt, _) = bty.ty.kind() {
                            let vi = bty.variant_index.unwrap_or(rustc_abi::FIRST_VARIANT);
                            if let Some(v) = adt.variants().get(vi) {
                                if let Some(fd) = v.fields.get(f) {
                                    fo.push(("n".into(), J::s(fd.name.as_str())));
                                }
                            }
                            fo.push(("adt".into(), J::s(&self.path(adt.did()))));
                        }
                        fo.push(("ty".into(), J::s(&self.ty_str(fty))));
                        pr.push(J::Obj(fo));
                    }
                    mir::ProjectionElem::Index(l) => {
                        pr.push(J::Obj(vec![("idx".into(), J::Int(l.index() as i128))]));
                    }
                    mir::ProjectionElem::ConstantIndex { offset, min_length, from_end } => {
                        pr.push(J::Obj(vec![
                            ("cidx".into(), J::Int(offset as i128)),
                            ("min".into(), J::Int(min_length as i128)),
                            ("from_end".into(), J::Bool(from_end)),
                        ]));
                    }
                    mir::ProjectionElem::Subslice { from, to, from_end } => {
                        pr.push(J::Obj(vec![
                            ("sub".into(), J::Int(from as i128)),
                            ("to".into(), J::Int(to as i128)),
                            ("from_end".into(), J::Bool(from_end)),
                        ]));
                    }
                    mir::ProjectionElem::Downcast(name, vi) => {
                        let mut d: Vec<(String, J)> = Vec::new();
                        d.push(("dc".into(), J::Int(vi.index() as i128)));
                        if let Some(n) = name {
                            d.push(("n".into(), J::s(n.as_str())));
                        }
                        pr.push(J::Obj(d));
                    }
                    other => {
                        pr.push(J::Obj(vec![("other".into(), J::s(&format!("{:?}", other)))]));
                    }
                }
            }
            o.push(("pr".into(), J::Arr(pr)));
        }
        J::Obj(o)
    }

    fn operand(&self, body: &mir::Body<'tcx>, op: &mir::Operand<'tcx>, owner: DefId) -> J {
        match op {
            mir::Operand::Copy(p) => J::Obj(vec![("k".into(), J::s("copy")), ("p".into(), self.place(body, *p))]),
            mir::Operand::Move(p) => J::Obj(vec![("k".into(), J::s("move")), ("p".into(), self.place(body, *p))]),
            mir::Operand::Constant(c) => self.constant(c, owner),
            #[allow(unreachable_patterns)]
            other => J::Obj(vec![("k".into(), J::s("other")), ("dbg".into(), J::s(&format!("{:?}", other)))]),
        }
    }

    fn constant(&self, c: &mir::ConstOperand<'tcx>, owner: DefId) -> J {
        let tcx = self.tcx;
        let mut o: Vec<(String, J)> = Vec::new();
        o.push(("k".into(), J::s("const")));
        let cty = c.const_.ty();
        o.push(("ty".into(), J::s(&self.ty_str(cty))));
        match cty.kind() {
            ty::FnDef(did, args) => {
                o.push(("fn".into(), J::s(&self.path(*did))));
                o.push(("fn_full".into(), J::s(&self.path_args(*did, args))));
                let mut ga = Vec::new();
                for a in args.iter() {
                    if let Some(t) = a.as_type() {
                        ga.push(J::s(&self.ty_str(t)));
                    }
                }
                o.push(("targs".into(), J::Arr(ga)));
                // resolve
                let env = ty::TypingEnv::post_analysis(tcx, owner);
                if let Ok(Some(inst)) = ty::Instance::try_resolve(tcx, env, *did, args) {
                    let rd = inst.def_id();
                    o.push(("resolved".into(), J::s(&self.path(rd))));
                    if let ty::InstanceKind::Item(_) = inst.def {
                    } else {
                        o.push(("inst_kind".into(), J::s(&format!("{:?}", inst.def).chars().take(60).collect::<String>())));
                    }
                    // closure type args that are local closures: record their def paths
                }
                let mut cl = Vec::new();
                for a in args.iter() {
                    if let Some(t) = a.as_type() {
                        collect_closures(self, t, &mut cl, 0);
                    }
                }
                if !cl.is_empty() {
                    o.push(("closures".into(), J::Arr(cl.iter().map(|s| J::s(s)).collect())));
                }
                return J::Obj(o);
            }
            _ => {}
        }
        match c.const_ {
            mir::Const::Unevaluated(uv, _) => {
                o.push(("uneval".into(), J::s(&self.path(uv.def))));
                if let Some(p) = uv.promoted {
                    o.push(("promoted".into(), J::Int(p.index() as i128)));
                }
                // try to evaluate to a scalar all the same
                let env = ty::TypingEnv::post_analysis(tcx, owner);
                if let Some(si) = c.const_.try_eval_scalar_int(tcx, env) {
                    self.scalar(si, cty, &mut o);
                }
            }
            mir::Const::Val(v, _) => {
                if let Some(si) = v.try_to_scalar_int() {
                    self.scalar(si, cty, &mut o);
                } else if let (true, Some(bytes)) = (
                    matches!(v, mir::ConstValue::Slice { .. }),
                    if matches!(v, mir::ConstValue::Slice { .. }) { v.try_get_slice_bytes_for_diagnostics(tcx) } else { None },
                ) {
                    match std::str::from_utf8(bytes) {
                        Ok(s) if is_strish(cty) => o.push(("str".into(), J::s(s))),
                        _ => o.push(("bytes".into(), J::Arr(bytes.iter().map(|b| J::Int(*b as i128)).collect()))),
                    }
                } else if let mir::ConstValue::Scalar(mir::interpret::Scalar::Ptr(ptr, _)) = v {
                    let (prov, off) = ptr.into_raw_parts();
                    match tcx.try_get_global_alloc(prov.alloc_id()) {
                        Some(mir::interpret::GlobalAlloc::Memory(alloc)) => {
                            let a = alloc.inner();
                            let start = off.bytes_usize();
                            if start <= a.len() && a.len() - start <= 4096 {
                                let bytes = a.inspect_with_uninit_and_ptr_outside_interpreter(start..a.len());
                                o.push(("bytes".into(), J::Arr(bytes.iter().map(|b| J::Int(*b as i128)).collect())));
                            } else {
                                o.push(("dbg".into(), J::s("ptr:large")));
                            }
                        }
                        Some(mir::interpret::GlobalAlloc::Static(d)) => {
                            o.push(("static".into(), J::s(&self.path(d))));
                        }
                        Some(mir::interpret::GlobalAlloc::Function { instance }) => {
                            o.push(("fnptr".into(), J::s(&self.path(instance.def_id()))));
                        }
                        _ => o.push(("dbg".into(), J::s("ptr:other"))),
                    }
                } else {
                    o.push(("dbg".into(), J::s(&format!("{:?}", v).chars().take(200).collect::<String>())));
                }
            }
            mir::Const::Ty(_, ct) => {
                o.push(("dbg".into(), J::s(&format!("{:?}", ct))));
            }
        }
        J::Obj(o)
    }

    fn scalar(&self, si: ty::ScalarInt, cty: Ty<'tcx>, o: &mut Vec<(String, J)>) {
        let size = si.size();
        let raw = si.to_bits(size);
        let v: i128 = if cty.is_signed() { size.sign_extend(raw) as i128 } else { raw as i128 };
        o.push(("int".into(), J::Int(v)));
        o.push(("bits".into(), J::Int(size.bits() as i128)));
    }

    fn rvalue(&self, body: &mir::Body<'tcx>, rv: &mir::Rvalue<'tcx>, owner: DefId) -> J {
        let tcx = self.tcx;
        let mut o: Vec<(String, J)> = Vec::new();
        match rv {
            mir::Rvalue::Use(op, ..) => {
                o.push(("k".into(), J::s("use")));
                o.push(("a".into(), self.operand(body, op, owner)));
            }
            mir::Rvalue::Repeat(op, n) => {
                o.push(("k".into(), J::s("repeat")));
                o.push(("a".into(), self.operand(body, op, owner)));
                o.push(("n".into(), J::s(&format!("{:?}", n))));
            }
            mir::Rvalue::Ref(_, bk, p) => {
                o.push(("k".into(), J::s("ref")));
                o.push((
                    "bk".into(),
                    J::s(match bk {
                        mir::BorrowKind::Shared => "shared",
                        mir::BorrowKind::Fake(_) => "fake",
                        mir::BorrowKind::Mut { .. } => "mut",
                    }),
                ));
                o.push(("p".into(), self.place(body, *p)));
            }
            mir::Rvalue::RawPtr(k, p) => {
                o.push(("k".into(), J::s("rawptr")));
                o.push(("bk".into(), J::s(&format!("{:?}", k))));
                o.push(("p".into(), self.place(body, *p)));
            }
            mir::Rvalue::Cast(ck, op, t) => {
                o.push(("k".into(), J::s("cast")));
                o.push(("ck".into(), J::s(&format!("{:?}", ck))));
                o.push(("a".into(), self.operand(body, op, owner)));
                o.push(("from".into(), J::s(&self.ty_str(op.ty(body, tcx)))));
                o.push(("ty".into(), J::s(&self.ty_str(*t))));
            }
            mir::Rvalue::BinaryOp(bop, bx) => {
                let (a, b) = &**bx;
                o.push(("k".into(), J::s("bin")));
                o.push(("op".into(), J::s(&format!("{:?}", bop))));
                o.push(("a".into(), self.operand(body, a, owner)));
                o.push(("b".into(), self.operand(body, b, owner)));
                o.push(("ty".into(), J::s(&self.ty_str(a.ty(body, tcx)))));
            }
            mir::Rvalue::UnaryOp(uop, a) => {
                o.push(("k".into(), J::s("un")));
                o.push(("op".into(), J::s(&format!("{:?}", uop))));
                o.push(("a".into(), self.operand(body, a, owner)));
                o.push(("ty".into(), J::s(&self.ty_str(a.ty(body, tcx)))));
            }
            mir::Rvalue::Discriminant(p) => {
                o.push(("k".into(), J::s("discr")));
                o.push(("p".into(), self.place(body, *p)));
                let pty = p.ty(body, tcx).ty;
                if let ty::Adt(adt, _) = pty.kind() {
                    o.push(("adt".into(), J::s(&self.path(adt.did()))));
                }
            }
            mir::Rvalue::Aggregate(kind, ops) => {
                o.push(("k".into(), J::s("agg")));
                match &**kind {
                    mir::AggregateKind::Array(t) => {
                        o.push(("ak".into(), J::s("array")));
                        o.push(("ty".into(), J::s(&self.ty_str(*t))));
                    }
                    mir::AggregateKind::Tuple => o.push(("ak".into(), J::s("tuple"))),
                    mir::AggregateKind::Adt(did, vi, _, _, _) => {
                        o.push(("ak".into(), J::s("adt")));
                        o.push(("adt".into(), J::s(&self.path(*did))));
                        let adt = tcx.adt_def(*did);
                        o.push(("vi".into(), J::Int(vi.index() as i128)));
                        if let Some(v) = adt.variants().get(*vi) {
                            o.push(("variant".into(), J::s(v.name.as_str())));
                            o.push((
                                "fields".into(),
                                J::Arr(v.fields.iter().map(|f| J::s(f.name.as_str())).collect()),
                            ));
                        }
                    }
                    mir::AggregateKind::Closure(did, _) => {
                        o.push(("ak".into(), J::s("closure")));
                        o.push(("closure".into(), J::s(&self.path(*did))));
                    }
                    other => {
                        o.push(("ak".into(), J::s("other")));
                        o.push(("dbg".into(), J::s(&format!("{:?}", other).chars().take(120).collect::<String>())));
                    }
                }
                o.push(("ops".into(), J::Arr(ops.iter().map(|x| self.operand(body, x, owner)).collect())));
            }
            other => {
                o.push(("k".into(), J::s("other")));
                o.push(("dbg".into(), J::s(&format!("{:?}", other).chars().take(200).collect::<String>())));
            }
        }
        J::Obj(o)
    }

    fn terminator(&self, body: &mir::Body<'tcx>, t: &mir::Terminator<'tcx>, owner: DefId) -> J {
        let tcx = self.tcx;
        let mut o: Vec<(String, J)> = Vec::new();
        match &t.kind {
            mir::TerminatorKind::Goto { target } => {
                o.push(("k".into(), J::s("goto")));
                o.push(("t".into(), J::Int(target.index() as i128)));
            }
            mir::TerminatorKind::SwitchInt { discr, targets } => {
                o.push(("k".into(), J::s("switch")));
                o.push(("a".into(), self.operand(body, discr, owner)));
                let dty = discr.ty(body, tcx);
                o.push(("ty".into(), J::s(&self.ty_str(dty))));
                let mut ts = Vec::new();
                for (v, bb) in targets.iter() {
                    // sign-correct value
                    let val: i128 = if dty.is_signed() {
                        let sz = dty.primitive_size(tcx);
                        sz.sign_extend(v) as i128
                    } else {
                        v as i128
                    };
                    ts.push(J::Arr(vec![J::Int(val), J::Int(bb.index() as i128)]));
                }
                o.push(("targets".into(), J::Arr(ts)));
                o.push(("otherwise".into(), J::Int(targets.otherwise().index() as i128)));
            }
            mir::TerminatorKind::Return => o.push(("k".into(), J::s("return"))),
            mir::TerminatorKind::Unreachable => o.push(("k".into(), J::s("unreachable"))),
            mir::TerminatorKind::UnwindResume => o.push(("k".into(), J::s("resume"))),
            mir::TerminatorKind::UnwindTerminate(_) => o.push(("k".into(), J::s("terminate"))),
            mir::TerminatorKind::Drop { place, target, unwind, .. } => {
                o.push(("k".into(), J::s("drop")));
                o.push(("p".into(), self.place(body, *place)));
                o.push(("pty".into(), J::s(&self.ty_str(place.ty(body, tcx).ty))));
                o.push(("t".into(), J::Int(target.index() as i128)));
                if let mir::UnwindAction::Cleanup(bb) = unwind {
                    o.push(("unwind".into(), J::Int(bb.index() as i128)));
                }
            }
            mir::TerminatorKind::Call { func, args, destination, target, unwind, fn_span, .. } => {
                o.push(("k".into(), J::s("call")));
                o.push(("f".into(), self.operand(body, func, owner)));
                o.push((
                    "args".into(),
                    J::Arr(args.iter().map(|a| self.operand(body, &a.node, owner)).collect()),
                ));
                o.push((
                    "arg_tys".into(),
                    J::Arr(args.iter().map(|a| J::s(&self.ty_str(a.node.ty(body, tcx)))).collect()),
                ));
                o.push(("dest".into(), self.place(body, *destination)));
                match target {
                    Some(bb) => o.push(("t".into(), J::Int(bb.index() as i128))),
                    None => o.push(("t".into(), J::Null)),
                }
                if let mir::UnwindAction::Cleanup(bb) = unwind {
                    o.push(("unwind".into(), J::Int(bb.index() as i128)));
                }
                o.push(("fn_sp".into(), J::s(&self.span_str(*fn_span))));
            }
            mir::TerminatorKind::Assert { cond, expected, msg, target, unwind } => {
                o.push(("k".into(), J::s("assert")));
                o.push(("cond".into(), self.operand(body, cond, owner)));
                o.push(("expected".into(), J::Bool(*expected)));
                let (ak, ops): (String, Vec<&mir::Operand<'tcx>>) = match &**msg {
                    mir::AssertKind::BoundsCheck { len, index } => ("BoundsCheck".into(), vec![len, index]),
                    mir::AssertKind::Overflow(op, a, b) => (format!("Overflow({:?})", op), vec![a, b]),
                    mir::AssertKind::OverflowNeg(a) => ("OverflowNeg".into(), vec![a]),
                    mir::AssertKind::DivisionByZero(a) => ("DivisionByZero".into(), vec![a]),
                    mir::AssertKind::RemainderByZero(a) => ("RemainderByZero".into(), vec![a]),
                    mir::AssertKind::MisalignedPointerDereference { .. } => ("Misaligned".into(), vec![]),
                    mir::AssertKind::NullPointerDereference => ("NullPtr".into(), vec![]),
                    other => (format!("{:?}", other).chars().take(40).collect(), vec![]),
                };
                o.push(("ak".into(), J::s(&ak)));
                o.push(("ops".into(), J::Arr(ops.iter().map(|x| self.operand(body, x, owner)).collect())));
                o.push(("t".into(), J::Int(target.index() as i128)));
                if let mir::UnwindAction::Cleanup(bb) = unwind {
                    o.push(("unwind".into(), J::Int(bb.index() as i128)));
                }
            }
            mir::TerminatorKind::FalseEdge { real_target, .. } => {
                o.push(("k".into(), J::s("goto")));
                o.push(("t".into(), J::Int(real_target.index() as i128)));
            }
            mir::TerminatorKind::FalseUnwind { real_target, .. } => {
                o.push(("k".into(), J::s("goto")));
                o.push(("t".into(), J::Int(real_target.index() as i128)));
            }
            other => {
                o.push(("k".into(), J::s("other")));
                o.push(("dbg".into(), J::s(&format!("{:?}", other).chars().take(200).collect::<String>())));
            }
        }
        self.span_json(t.source_info.span, &mut o);
        J::Obj(o)
    }
}

fn is_strish(t: Ty<'_>) -> bool {
    match t.kind() {
        ty::Ref(_, inner, _) => matches!(inner.kind(), ty::Str),
        _ => false,
    }
}

fn collect_closures<'tcx>(cx: &Cx<'tcx>, t: Ty<'tcx>, out: &mut Vec<String>, depth: usize) {
    if depth > 6 {
        return;
    }
    match t.kind() {
        ty::Closure(did, _) => out.push(cx.path(*did)),
        ty::FnDef(did, _) => out.push(format!("fn:{}", cx.path(*did))),
        ty::Ref(_, inner, _) => collect_closures(cx, *inner, out, depth + 1),
        ty::Adt(_, args) => {
            for a in args.iter() {
                if let Some(t2) = a.as_type() {
                    collect_closures(cx, t2, out, depth + 1);
                }
            }
        }
        ty::Tuple(ts) => {
            for t2 in ts.iter() {
                collect_closures(cx, t2, out, depth + 1);
            }
        }
        _ => {}
    }
}

#[allow(unused)]
fn _unused(w: &mut String) {
    let _ = write!(w, "");
}
