"""F28 demonstration (C20): a blank line in the debugger's history file, then Up and Enter on a terminal.
usage: python3 F28_blank_history_line.py <path to a debug build of lace> <any .asm file>
prints PANIC (before fix 652d70c: `should have read characters until non-empty`, src/debugger/command/reader/terminal.rs) or `no panic`.
Not part of any check (it runs lace on a pty); kept as the evidence that the finding reported by C20.R10 was genuine."""
import os, pty, sys, time, select, tempfile, subprocess
cache = tempfile.mkdtemp(prefix="lace-hist-")
open(os.path.join(cache, "lace-debugger-history"), "w").write("registers\n   \n")
env = dict(os.environ, XDG_CACHE_HOME=cache, HOME=cache)
pid, fd = pty.fork()
if pid == 0:
    os.execve(sys.argv[1], [sys.argv[1], "debug", sys.argv[2]], env)
def rd(t=1.0):
    out=b""
    end=time.time()+t
    while time.time()<end:
        r,_,_=select.select([fd],[],[],0.1)
        if r:
            try: d=os.read(fd,4096)
            except OSError: break
            if not d: break
            out+=d
    return out
rd(1.0)
os.write(fd, b"\x1b[A")   # Up: focus the last history entry (whitespace only)
rd(0.5)
os.write(fd, b"\r")       # Enter
out = rd(1.5)
os.write(fd, b"quit\r")
out += rd(1.0)
try:
    _, st = os.waitpid(pid, os.WNOHANG)
except ChildProcessError:
    st = None
txt = out.decode("utf-8","replace")
print("PANIC" if "panicked" in txt else "no panic")
for l in txt.splitlines():
    if "panicked" in l or "should have read" in l: print(l.strip()[:200])
import shutil; shutil.rmtree(cache, ignore_errors=True)
